------------------------------ MODULE StoreGen ------------------------------
(***************************************************************************)
(* Behaviour generator for Store: run with `tlc -simulate`.  Each simulated *)
(* behaviour of MaxOps operations is printed as one line                    *)
(*    TRACE [ {op, reply, now, st, met}, ... ]                              *)
(* which the Go harness replays against the real backends step by step.     *)
(*                                                                         *)
(* The operation class of each step is drawn with RandomElement so that     *)
(* Tick / Cleanup / ExpireAll are not drowned by the many Write instances;  *)
(* only steps whose outcome the model determines uniquely are generated     *)
(* (eviction ties are left to trace validation, see StoreTrace).            *)
(***************************************************************************)
EXTENDS StoreRef, Json

VARIABLES hist, done

(* Operation mix; configurations may substitute another one (Classes <- ...). *)
ClassesCleanup == <<"write", "write", "write", "store", "read", "read", "delete", "expireall",
                    "tick", "tick", "tick", "tick", "cleanup", "cleanup", "cleanup", "len", "walk">>   \* walk: also a Walk whose callback fails
ClassesEvict   == <<"write", "write", "write", "write", "write", "store", "read", "read", "read", "read",
                    "load", "delete", "tick", "tick", "cleanup", "cleanup", "cleanup", "expireall", "relayself", "len">>

ClassesRelay   == <<"write", "write", "write", "write", "store", "read", "read", "delete", "expireall",
                    "tick", "tick", "relay", "relay", "relay", "relayself", "cleanup", "len">>

Classes == <<"write", "write", "write", "write", "store",
             "read", "read", "read", "read", "load",
             "delete", "delete", "expireall", "deleteall",
             "len", "walk", "tick", "tick", "tick", "tick", "cleanup", "cleanup">>

StateProj == {slot[h] : h \in Used(slot)}

Step(cls) ==
  CASE cls = "write"     -> \E k \in Keys, v \in Vals, t \in TTLs : Write(k, v, t)
    [] cls = "store"     -> \E k \in Keys, v \in Vals : Store(k, v)
    [] cls = "read"      -> \E k \in Keys, s \in {FALSE, FALSE, FALSE, TRUE} : Read(k, s)
    [] cls = "load"      -> \E k \in Keys : Load(k)
    [] cls = "delete"    -> \E k \in Keys : Delete(k)
    [] cls = "expireall" -> ExpireAll
    [] cls = "deleteall" -> DeleteAll
    [] cls = "len"       -> LenOp
    [] cls = "walk"      -> Walk \/ WalkStop
    [] cls = "tick"      -> Tick
    [] cls = "relay"     -> Relay
    [] cls = "relayself" -> RelaySelf
    [] cls = "cleanup"   -> \E b \in BOOLEAN : Cleanup(b)

GenInit == Init /\ hist = <<>> /\ done = FALSE

GenStep ==
  /\ clk < MaxOps
  /\ UNCHANGED done
  /\ LET cls == Classes[RandomElement(1..Len(Classes))] IN Step(cls)
  /\ op'.name = "Cleanup" =>
        Cardinality(EvictChoices(AfterDeleteExpired(slot), reply'.n)) = 1
  /\ hist' = Append(hist, [op |-> op', reply |-> reply', now |-> now',
                           st |-> StateProj', met |-> met'])

(* A single successor at the end of the walk, so that exactly the walked   *)
(* behaviour is printed (the simulator evaluates invariants on every        *)
(* candidate successor).                                                    *)
Finish == clk = MaxOps /\ ~done /\ done' = TRUE /\ UNCHANGED <<vars, hist>>

GenNext == GenStep \/ Finish

GenSpec == GenInit /\ [][GenNext]_<<vars, hist, done>>

Emit == done => PrintT("TRACE " \o ToJson(hist))
=============================================================================
