-------------------------------- MODULE FoMon --------------------------------
(***************************************************************************)
(* Property monitors for Failover / FailoverOf over EVENT traces recorded   *)
(* from the real code (harness/fo.go), one ndjson line per event:           *)
(*   call/ret of Get, backend Read/Write as seen by the wrapper around the  *)
(*   real backend, builder entry/exit (stamped inside the builder),          *)
(*   virtual-clock ticks, external backend operations, metric totals,        *)
(*   quiescence probe and the follow-up Get per key.                         *)
(*                                                                         *)
(* The monitor keeps the state the properties talk about (builds in flight, *)
(* values produced / stored / errors produced per key, what the backend     *)
(* holds, failure-cache horizon, TTL cells) and consumes a line iff the      *)
(* guard of the property selected by the constant Prop holds; it is          *)
(* deliberately silent about everything that property does not state.        *)
(* A line that cannot be consumed is a violation of Prop by the real code.   *)
(*                                                                         *)
(* Lines {"ev":"newtrace", ...} start an independent execution and carry     *)
(* its configuration.                                                       *)
(***************************************************************************)
EXTENDS Integers, Sequences, FiniteSets, TLC, Json

CONSTANTS TraceFile, Prop

Trace == ndJsonDeserialize(TraceFile)

VARIABLES
  l,          \* next line
  cfg,        \* configuration of the current execution (from the newtrace line)
  now,        \* ticks elapsed
  inb,        \* key -> number of builder invocations inside the builder
  produced,   \* key -> values returned by successful builder invocations
  stored,     \* key -> values ever stored in the backend under the key
  berrs,      \* key -> errors produced by builder invocations (or prepared in the failure cache)
  injected,   \* key -> injected backend error tokens
  bk,         \* key -> what the backend holds: [v, e] or NoEnt
  failUntil,  \* key -> tick until which a cached failure suppresses builds
  pend,       \* processes inside Get
  skipP,      \* processes whose context carries SkipRead
  cellOf,     \* process -> [has, c] caller's TTL cell as the monitor expects it
  lastRd,     \* process -> [c, v] last backend read result
  built,      \* process -> value its last successful builder invocation returned ("" if none)
  cnt         \* event counters for the metric identities

vars == <<l, cfg, now, inb, produced, stored, berrs, injected, bk, failUntil, pend, skipP, cellOf, lastRd, built, cnt>>

NoEnt == [v |-> "-", e |-> 0, src |-> "-"]
NoExp == 999
NoCell == [has |-> FALSE, c |-> 0, k |-> ""]

At(f, k, d) == IF k \in DOMAIN f THEN f[k] ELSE d
Put(f, k, v) == [x \in DOMAIN f \cup {k} |-> IF x = k THEN v ELSE f[x]]

Ev == Trace[l]

ZeroCnt == [benter |-> 0, bfail |-> 0, refresh |-> 0, reads |-> 0, writes |-> 0, touched |-> 0, calls |-> 0]

Fresh ==
  /\ now = 0 /\ inb = <<>> /\ produced = <<>> /\ stored = <<>> /\ berrs = <<>> /\ injected = <<>>
  /\ bk = <<>> /\ failUntil = <<>> /\ pend = {} /\ skipP = {} /\ cellOf = <<>> /\ lastRd = <<>> /\ built = <<>>
  /\ cnt = ZeroCnt

FreshP ==
  /\ now' = 0 /\ inb' = <<>> /\ produced' = <<>> /\ stored' = <<>> /\ berrs' = <<>> /\ injected' = <<>>
  /\ bk' = <<>> /\ failUntil' = <<>> /\ pend' = {} /\ skipP' = {} /\ cellOf' = <<>> /\ lastRd' = <<>> /\ built' = <<>>
  /\ cnt' = ZeroCnt

Init == l = 1 /\ cfg = [SyncRead |-> FALSE, BeTTL |-> 0, UpdTTL |-> 0, FailTTL |-> 0, StatOn |-> FALSE, NoOpBe |-> FALSE] /\ Fresh

FoldTTL(c, t) == IF t # 0 /\ (c = 0 \/ c > t) THEN t ELSE c

ExpiryFor(ttl) == LET eff == IF ttl # 0 THEN ttl ELSE cfg.BeTTL IN IF eff = 0 THEN NoExp ELSE now + eff

FreshBuilt(k) ==
  LET en == At(bk, k, NoEnt) IN en # NoEnt /\ en.e > now /\ en.src = "build"

BackendErrOK(k, e) ==
  \/ e \in At(injected, k, {})
  \/ (e = "refresh:BE:w" /\ "BE:w" \in At(injected, k, {}))

(* A write is the re-store of a stale value iff the writer's last read was  *)
(* an expired entry with that value and it has not built that value itself. *)
IsRefresh(e) ==
  /\ At(lastRd, e.p, [c |-> "none", v |-> ""]).c = "expired"
  /\ At(lastRd, e.p, [c |-> "none", v |-> ""]).v = e.v
  /\ At(built, e.p, "") # e.v

IntendedTTL(e) ==
  IF IsRefresh(e) THEN cfg.UpdTTL
  ELSE IF At(cellOf, e.p, NoCell).has THEN At(cellOf, e.p, NoCell).c ELSE 0

---------------------------------------------------------------------------
(* Guards per property; G(e) is evaluated in the state BEFORE the event.    *)

C01(e) == e.ev = "benter" => At(inb, e.k, 0) = 0

C02(e) ==
  /\ e.ev \in {"ret", "followup"} /\ (e.ev = "followup" => e.c = "returned") =>
       IF e.err = ""
         THEN e.v \in At(produced, e.k, {}) \cup At(stored, e.k, {})
         ELSE e.err \in At(berrs, e.k, {}) \/ BackendErrOK(e.k, e.err)
  /\ e.ev = "panic" => FALSE
  \* an expired item that a backend Read handed out now says something else than when it was handed out: the Get that
  \* holds it will serve, as the stale value of its key, a value that was never stored under that key
  /\ e.ev = "entrymutated" => FALSE

C04(e) ==
  /\ e.ev = "quiesce" => (e.note = "" /\ e.n = 0 /\ pend = {})
  /\ e.ev = "followup" =>
        /\ e.c = "returned" /\ e.err = "" /\ e.n = 1
        /\ e.v \in At(produced, e.k, {})
        /\ e.note = (IF cfg.NoOpBe THEN "notfound:" ELSE "hit:" \o e.v)   \* the backend holds it (cache.NoOp holds nothing)
  /\ e.ev = "panic" => FALSE
  \* "observes the result of the last completed build": a build's result is stored under the key of its own call
  /\ (e.ev = "beWrite" /\ e.p \in DOMAIN cellOf /\ At(built, e.p, "") = e.v) => e.k = cellOf[e.p].k

C05(e) ==
  /\ e.ev = "benter" /\ e.p \notin skipP =>
        /\ (cfg.SyncRead /\ At(lastRd, e.p, [c |-> "none", v |-> ""]).c # "beerr") => ~FreshBuilt(e.k)
        /\ now >= At(failUntil, e.k, 0)
  \* "while its result stays fresh": a built result that the backend already reports as expired although the time the
  \* caller asked for has not passed leads straight to the next build (the reader re-stores it, which hides it from the
  \* guard above)
  /\ (e.ev = "beRead" /\ e.c = "expired" /\ cfg.SyncRead) => ~FreshBuilt(e.k)
  \* "a burst of N Gets on a missing or expired key costs exactly one successful build": no second build of the key
  \* while one is in flight (with SyncRead; without it this is C01 alone)
  /\ (e.ev = "benter" /\ cfg.SyncRead /\ e.p \notin skipP) => At(inb, e.k, 0) = 0

C06(e) ==
  /\ e.ev = "beWrite" =>
        IF IsRefresh(e) THEN e.ttl = cfg.UpdTTL
        ELSE e.ttl = (IF At(cellOf, e.p, NoCell).has THEN At(cellOf, e.p, NoCell).c ELSE 0)
  /\ e.ev = "ret" => e.ttl = (IF At(cellOf, e.p, NoCell).has THEN At(cellOf, e.p, NoCell).c ELSE 0)
  \* a synchronous build runs under the caller's context (deadline, cancellable, and cancelled if the caller cancels
  \* while the builder runs); a background build sees none of that
  /\ e.ev = "bexit" => IF e.bg THEN e.note = ""
                        ELSE e.note \in {"", "deadline;cancellable;", "ctxerr:context canceled;deadline;cancellable;"}
  \* "SkipRead forces a rebuild whose result is still stored": judged for a Get that ran alone (a concurrent Get may
  \* legitimately be handed the lock owner's result, whatever that owner read).
  /\ (e.ev = "ret" /\ e.p \in skipP /\ cnt.calls = 1) =>
        /\ (cnt.benter >= 1 \/ (e.err # "" /\ BackendErrOK(e.k, e.err)))   \* neither the cache nor the failure cache may
                                                                           \* answer instead of the builder (a failing backend may)
        /\ e.err = "" => (At(built, e.p, "") = e.v /\ e.v \in At(stored, e.k, {}))

(* C09 (Failover part): every backend access a Get (or its background     *)
(* build) makes is for the key the caller passed, whatever the caller does  *)
(* with its buffer after Get returned.                                      *)
OthersVals(k) == UNION {At(produced, k2, {}) \cup At(stored, k2, {}) : k2 \in (DOMAIN produced \cup DOMAIN stored) \ {k}}
OthersErrs(k) == UNION {At(berrs, k2, {}) : k2 \in DOMAIN berrs \ {k}}
C09(e) ==
  /\ e.ev \in {"beRead", "beWrite"} /\ e.p \in DOMAIN cellOf => e.k = cellOf[e.p].k
  \* a Get on k never returns what belongs to another key only (value or builder error), equal hashes or not
  /\ (e.ev = "ret" /\ e.err = "" /\ e.v \in OthersVals(e.k)) => e.v \in At(produced, e.k, {}) \cup At(stored, e.k, {})
  /\ (e.ev = "ret" /\ e.err # "" /\ e.err \in OthersErrs(e.k)) => e.err \in At(berrs, e.k, {})
  \* an expired item handed out for k that now carries a value of another key (slot shared by colliding keys)
  /\ (e.ev = "entrymutated" /\ e.v \in OthersVals(e.k)) => e.v \in At(produced, e.k, {}) \cup At(stored, e.k, {})

C18(e) ==
  e.ev = "metric" =>
     CASE e.c = "build"     -> e.n = cnt.benter
       [] e.c = "failed"    -> e.n = cnt.bfail
       [] e.c = "refreshed" -> e.n = cnt.refresh
       [] e.c = "be_reads"  -> e.n = cnt.reads + cnt.touched
       [] e.c = "be_write"  -> e.n = cnt.writes
       [] OTHER -> TRUE

Guard(e) ==
  CASE Prop = "C01" -> C01(e)
    [] Prop = "C02" -> C02(e)
    [] Prop = "C04" -> C04(e)
    [] Prop = "C05" -> C05(e)
    [] Prop = "C06" -> C06(e)
    [] Prop = "C18" -> C18(e)
    [] Prop = "C09" -> C09(e) /\ (e.ev = "quiesce" => e.n = 0)
    [] OTHER -> TRUE

---------------------------------------------------------------------------
(* State update per event.                                                  *)

Same == UNCHANGED <<cfg, now, inb, produced, stored, berrs, injected, bk, failUntil, pend, skipP, cellOf, lastRd, built, cnt>>

Upd(e) ==
  CASE e.ev = "prep" ->
         /\ stored' = Put(stored, e.k, At(stored, e.k, {}) \cup {e.v})
         /\ bk' = Put(bk, e.k, [v |-> e.v, e |-> e.e, src |-> "init"])
         /\ cnt' = [cnt EXCEPT !.writes = @ + 1]
         /\ UNCHANGED <<cfg, now, inb, produced, berrs, injected, failUntil, pend, skipP, cellOf, lastRd, built>>
    [] e.ev = "preperr" ->
         /\ berrs' = Put(berrs, e.k, At(berrs, e.k, {}) \cup {e.err})
         /\ failUntil' = Put(failUntil, e.k, e.e)
         /\ UNCHANGED <<cfg, now, inb, produced, stored, injected, bk, pend, skipP, cellOf, lastRd, built, cnt>>
    [] e.ev = "call" ->
         /\ pend' = pend \cup {e.p}
         /\ skipP' = IF e.c = "skip" THEN skipP \cup {e.p} ELSE skipP
         /\ cellOf' = Put(cellOf, e.p, [has |-> e.n = 1, c |-> e.ttl, k |-> e.k])
         /\ cnt' = [cnt EXCEPT !.calls = @ + 1]
         /\ UNCHANGED <<cfg, now, inb, produced, stored, berrs, injected, bk, failUntil, lastRd, built>>
    [] e.ev = "ret" ->
         /\ pend' = pend \ {e.p}
         /\ UNCHANGED <<cfg, now, inb, produced, stored, berrs, injected, bk, failUntil, skipP, cellOf, lastRd, built, cnt>>
    [] e.ev = "beRead" ->
         /\ lastRd' = Put(lastRd, e.p, [c |-> e.c, v |-> e.v])
         /\ injected' = IF e.c = "beerr" THEN Put(injected, e.k, At(injected, e.k, {}) \cup {e.err}) ELSE injected
         /\ cnt' = IF e.c # "beerr" /\ e.p \notin skipP THEN [cnt EXCEPT !.reads = @ + 1] ELSE cnt
         /\ UNCHANGED <<cfg, now, inb, produced, stored, berrs, bk, failUntil, pend, skipP, cellOf, built>>
    [] e.ev = "beWrite" ->
         /\ IF e.c = "fault"
              THEN /\ injected' = Put(injected, e.k, At(injected, e.k, {}) \cup {e.err})
                   /\ UNCHANGED <<stored, bk>>
                   /\ cnt' = IF IsRefresh(e) THEN [cnt EXCEPT !.refresh = @ + 1] ELSE cnt
              ELSE /\ stored' = Put(stored, e.k, At(stored, e.k, {}) \cup {e.v})
                   /\ bk' = IF cfg.NoOpBe THEN bk      \* cache.NoOp drops every write
                            \* how long the value STAYS FRESH is what the caller asked for (its TTL cell folded with the
                                \* builder's hints; UpdateTTL for the temporary re-store), not what the write happened to carry
                                \* - that the two agree is C06; a result that expires early makes the next build premature (C05)
                            ELSE Put(bk, e.k, [v |-> e.v, e |-> ExpiryFor(IntendedTTL(e)),
                                               src |-> IF IsRefresh(e) THEN "refresh" ELSE "build"])
                   /\ cnt' = IF IsRefresh(e) THEN [cnt EXCEPT !.refresh = @ + 1, !.writes = @ + 1]
                                             ELSE [cnt EXCEPT !.writes = @ + 1]
                   /\ UNCHANGED injected
         /\ UNCHANGED <<cfg, now, inb, produced, berrs, failUntil, pend, skipP, cellOf, lastRd, built>>
    [] e.ev = "benter" ->
         /\ inb' = Put(inb, e.k, At(inb, e.k, 0) + 1)
         /\ cnt' = [cnt EXCEPT !.benter = @ + 1]
         /\ UNCHANGED <<cfg, now, produced, stored, berrs, injected, bk, failUntil, pend, skipP, cellOf, lastRd, built>>
    [] e.ev = "bexit" ->
         /\ inb' = Put(inb, e.k, At(inb, e.k, 0) - 1)
         /\ LET co == At(cellOf, e.p, NoCell) IN
            cellOf' = IF co.has THEN Put(cellOf, e.p, [co EXCEPT !.c = FoldTTL(co.c, e.ttl)]) ELSE cellOf
         /\ IF e.c = "ok"
              THEN /\ produced' = Put(produced, e.k, At(produced, e.k, {}) \cup {e.v})
                   /\ built' = Put(built, e.p, e.v)
                   /\ UNCHANGED <<berrs, failUntil, cnt>>
              ELSE /\ berrs' = Put(berrs, e.k, At(berrs, e.k, {}) \cup {e.err})
                   /\ failUntil' = IF cfg.FailTTL > -1 THEN Put(failUntil, e.k, now + cfg.FailTTL) ELSE failUntil
                   /\ cnt' = [cnt EXCEPT !.bfail = @ + 1]
                   /\ UNCHANGED <<produced, built>>
         /\ UNCHANGED <<cfg, now, stored, injected, bk, pend, skipP, lastRd>>
    [] e.ev = "tick" ->
         /\ now' = now + 1
         /\ UNCHANGED <<cfg, inb, produced, stored, berrs, injected, bk, failUntil, pend, skipP, cellOf, lastRd, built, cnt>>
    [] e.ev = "extexpire" ->
         /\ bk' = [k \in DOMAIN bk |-> IF bk[k] = NoEnt THEN NoEnt ELSE [bk[k] EXCEPT !.e = now]]
         /\ cnt' = [cnt EXCEPT !.touched = @ + Cardinality({k \in DOMAIN bk : bk[k] # NoEnt})]
         /\ UNCHANGED <<cfg, now, inb, produced, stored, berrs, injected, failUntil, pend, skipP, cellOf, lastRd, built>>
    [] e.ev = "extwrite" ->
         /\ stored' = Put(stored, e.k, At(stored, e.k, {}) \cup {e.v})
         /\ bk' = Put(bk, e.k, [v |-> e.v, e |-> ExpiryFor(0), src |-> "ext"])
         /\ cnt' = [cnt EXCEPT !.writes = @ + 1]
         /\ UNCHANGED <<cfg, now, inb, produced, berrs, injected, failUntil, pend, skipP, cellOf, lastRd, built>>
    [] e.ev = "extdelete" ->
         /\ bk' = Put(bk, e.k, NoEnt)
         /\ UNCHANGED <<cfg, now, inb, produced, stored, berrs, injected, failUntil, pend, skipP, cellOf, lastRd, built, cnt>>
    [] e.ev = "reset" ->    \* follow-up phase: time jumped far ahead, backend emptied
         /\ bk' = [k \in DOMAIN bk |-> NoEnt]
         /\ failUntil' = [k \in DOMAIN failUntil |-> 0]
         /\ UNCHANGED <<cfg, now, inb, produced, stored, berrs, injected, pend, skipP, cellOf, lastRd, built, cnt>>
    [] e.ev = "followup" ->
         /\ pend' = pend \ {e.p}
         /\ UNCHANGED <<cfg, now, inb, produced, stored, berrs, injected, bk, failUntil, skipP, cellOf, lastRd, built, cnt>>
    [] OTHER -> Same     \* stat, log, quiesce, metric, panic: no state

TraceEvent ==
  /\ l <= Len(Trace) /\ Ev.ev # "newtrace"
  /\ Guard(Ev)
  /\ Upd(Ev)
  /\ l' = l + 1

TraceNew ==
  /\ l <= Len(Trace) /\ Ev.ev = "newtrace"
  /\ l' = l + 1
  /\ cfg' = [SyncRead |-> Ev.SyncRead, BeTTL |-> Ev.BeTTL, UpdTTL |-> Ev.UpdTTL, FailTTL |-> Ev.FailTTL,
             StatOn |-> Ev.StatOn, NoOpBe |-> Ev.NoOpBe]
  /\ FreshP

TraceNext == TraceEvent \/ TraceNew
TraceSpec == Init /\ [][TraceNext]_vars

TraceAccepted ==
  LET d == TLCGet("stats").diameter IN
  IF d - 1 = Len(Trace) THEN TRUE
  ELSE Print(<<"TRACE_REJECTED_AT_LINE", d>>, FALSE)
=============================================================================
