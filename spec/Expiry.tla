-------------------------------- MODULE Expiry --------------------------------
(***************************************************************************)
(* MonExpiry (C10): the documented bounds of an entry's expiry, applied to  *)
(* every write the harness performs on the real backends under an exact     *)
(* (virtual) clock.  One ndjson line per write:                             *)
(*   unlimited   config TimeToLive = UnlimitedTTL                           *)
(*   hasctx      a non-zero TTL was passed through the context              *)
(*   src         "ctx" | "cfg": where the harness took the effective TTL T  *)
(*               from according to the documentation (context if non-zero)  *)
(*   jppm        ExpirationJitter in parts per million, -1 = disabled       *)
(*   never       the stored expiry is zero (entry never expires)            *)
(*   exact       E - t = T                                                  *)
(*   rppm        (E - t) * 10^6 / T, computed by the harness with math/big  *)
(*   before, at, after   result class of Read at E-1ns, E, E+1ns ("skip"    *)
(*               when that instant lies before the write)                   *)
(*   eateq       ErrExpired.ExpiredAt() = E = Walk's ExpireAt() on every    *)
(*               expired read                                               *)
(* 64-bit nanosecond arithmetic is done by the harness (TLC integers are    *)
(* 32 bit); the case analysis and the bounds live here.                     *)
(***************************************************************************)
EXTENDS Integers, Sequences, TLC, Json

CONSTANT TraceFile
Trace == ndJsonDeserialize(TraceFile)
VARIABLE l

Million == 1000000

WriteOK(e) ==
  /\ e.never <=> (e.unlimited /\ ~e.hasctx)                 \* "with UnlimitedTTL and no context TTL it never expires"
  /\ ~e.never =>
       /\ e.src = (IF e.hasctx THEN "ctx" ELSE "cfg")        \* "the context TTL if non-zero, else the configured TimeToLive"
       /\ IF e.jppm = -1
            THEN e.exact                                     \* "exactly t+T when jitter is disabled"
            ELSE /\ 2 * e.rppm >= 2 * Million - e.jppm - 2   \* [T(1-J/2), T(1+J/2)], +-1 ppm rounding
                 /\ 2 * e.rppm <= 2 * Million + e.jppm + 2
       /\ e.before \in {"hit", "skip"}                       \* "reads before that instant return the value"
       /\ e.at \in {"hit", "expired", "skip"}
       /\ e.after = "expired"                                \* "reads after it return ErrExpired ..."
       /\ e.eateq                                            \* "... whose ExpiredAt equals the instant that Walk reports"
  /\ e.never => e.before = "hit" /\ e.at = "hit" /\ e.after = "hit"

Init == l = 1
Next == l <= Len(Trace) /\ WriteOK(Trace[l]) /\ l' = l + 1
TraceSpec == Init /\ [][Next]_l

TraceAccepted ==
  LET d == TLCGet("stats").diameter IN
  IF d - 1 = Len(Trace) THEN TRUE ELSE Print(<<"TRACE_REJECTED_AT_LINE", d>>, FALSE)
=============================================================================
