---------------------------- MODULE FailoverTable ----------------------------
(***************************************************************************)
(* Property C03: the decision table of a lone Get, transcribed from the     *)
(* README ("Failover Cache", bullets 2-7) and the comments of               *)
(* FailoverConfig.MaxStaleness / FailHard - not from the code.              *)
(*                                                                         *)
(* TLC checks that Failover.tla with a single process agrees with the table *)
(* for every cell (invariant TableOK); the same run prints every behaviour, *)
(* which the harness replays on the real code in lockstep.                  *)
(*                                                                         *)
(* Where the documentation is silent or pulls both ways the table follows   *)
(* the code and says so:                                                    *)
(*  - acceptable stale value AND cached failure: the stale copy is          *)
(*    re-stored with UpdateTTL, the cached error is returned, no build;     *)
(*  - a value is "the built one" only if the builder AND the store          *)
(*    succeeded (no faults in this table).                                  *)
(***************************************************************************)
EXTENDS FailoverGen

VARIABLE init0     \* the prepared contents this behaviour started from

TheP == CHOOSE p \in Procs : TRUE
TheK == KeyOf[TheP]

Entry ==
  LET b == init0.be[TheK] IN
  IF b = None THEN "absent"
  ELSE IF b.e > 0 THEN "fresh"
  ELSE IF MaxStale = 0 \/ 0 - b.e <= MaxStale - 1 THEN "stale"
  ELSE "toostale"

FailureCached == FailTTL > -1 /\ init0.errs[TheK] # None /\ init0.errs[TheK].e > 0
BuilderOk == fails = 0

V0 == init0.be[TheK].v
Built == [v |-> Tok(TheK, 1), e |-> BeTTL]
Refreshed == [v |-> V0, e |-> UpdTTL]
BuildErr == [v |-> ETok(TheK, 1), e |-> FailTTL]

Row(kind, builds, bg, beAfter, errsAfter) ==
  [kind |-> kind, builds |-> builds, bg |-> bg, be |-> beAfter, errs |-> errsAfter]

ErrsAfterFail == IF FailTTL > -1 THEN BuildErr ELSE init0.errs[TheK]

Expected ==
  LET b0 == init0.be[TheK]
      e0 == init0.errs[TheK] IN
  CASE Entry = "fresh" ->
         \* "If value is available in cache, it is served from cache and builder function is not invoked."
         Row("fresh", 0, FALSE, b0, e0)
    [] Entry # "fresh" /\ FailureCached ->
         \* "all consecutive calls for the key would fail immediately with same error"
         Row("err:cached", 0, FALSE, IF Entry = "stale" THEN Refreshed ELSE b0, e0)
    [] Entry = "stale" /\ ~FailureCached /\ ~SyncUpdate ->
         \* "stale value ... is served to all readers, including the first reader who triggered builder function.
         \*  Builder function runs in background"
         Row("stale", 1, TRUE, IF BuilderOk THEN Built ELSE Refreshed, IF BuilderOk THEN e0 ELSE ErrsAfterFail)
    [] OTHER ->
         \* absent / too stale ("readers are blocked till the builder function return"), or SyncUpdate
         IF BuilderOk
           THEN Row("built", 1, FALSE, Built, e0)
           ELSE IF Entry \in {"stale", "toostale"} /\ ~FailHard
             \* "If builder function fails and stale value is available, stale value is served regardless of MaxStaleness."
             THEN Row("stale", 1, FALSE, IF Entry = "stale" THEN Refreshed ELSE b0, ErrsAfterFail)
             ELSE Row("err:build", 1, FALSE, IF Entry = "stale" THEN Refreshed ELSE b0, ErrsAfterFail)

Kind ==
  LET r == res[TheP] IN
  IF r.err = NoVal
    THEN IF r.v = Tok(TheK, 1) THEN "built"
         ELSE IF init0.be[TheK] # None /\ r.v = V0 THEN (IF Entry = "fresh" THEN "fresh" ELSE "stale")
         ELSE "?value"
    ELSE IF r.err = ETok(TheK, 1) THEN "err:build"
         ELSE IF init0.errs[TheK] # None /\ r.err = init0.errs[TheK].v THEN "err:cached"
         ELSE "?error"

Outcome == Row(Kind, nb[TheK], loc[TheP].bg, be[TheK], errs[TheK])

TableOK == AllDone => Outcome = Expected

TableInit == GenInit /\ init0 = [be |-> be, errs |-> errs]
TableNext == GenNext /\ UNCHANGED init0
TableSpec == TableInit /\ [][TableNext]_<<vars, hist, done, init0>>
=============================================================================
