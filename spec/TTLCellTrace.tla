---------------------------- MODULE TTLCellTrace ----------------------------
(* The real WithTTL / TTL (context.go) against FoldTTL: every line is           *)
(*   {has, c, upd, hints, got, fresh}                                            *)
(* a context that carries (has) or does not carry a TTL cell with value c, then  *)
(* WithTTL(ctx, h, upd) for every h of hints in order (the returned context is   *)
(* dropped, as a builder does), got = TTL(ctx) afterwards; fresh = TTL of the     *)
(* context RETURNED by the last call.                                             *)
EXTENDS Integers, Sequences, TLC, Json
CONSTANT TraceFile
Trace == ndJsonDeserialize(TraceFile)
VARIABLE l

FoldTTL(c, t) == IF t # 0 /\ (c = 0 \/ c > t) THEN t ELSE c

RECURSIVE FoldSeq(_, _)
FoldSeq(c, s) == IF s = <<>> THEN c ELSE FoldSeq(FoldTTL(c, Head(s)), Tail(s))

LineOK(e) ==
  LET n == Len(e.hints) IN
  IF e.has /\ e.upd
    THEN \* the caller's cell collects the minimal non-zero value; the returned context is the same one
         /\ e.got = FoldSeq(e.c, e.hints)
         /\ e.fresh = e.got
    ELSE \* no cell to update, or updateExisting = FALSE: the caller's context is untouched, the returned one carries the last value
         /\ e.got = (IF e.has THEN e.c ELSE 0)
         /\ (n > 0 => e.fresh = e.hints[n])

Init == l = 1
Next == l <= Len(Trace) /\ LineOK(Trace[l]) /\ l' = l + 1
TraceSpec == Init /\ [][Next]_l
TraceAccepted ==
  LET d == TLCGet("stats").diameter IN
  IF d - 1 = Len(Trace) THEN TRUE ELSE Print(<<"TRACE_REJECTED_AT_LINE", d>>, FALSE)
=============================================================================
