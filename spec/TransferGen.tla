----------------------------- MODULE TransferGen -----------------------------
EXTENDS Transfer
(* generator: operation sequences only (the code resolves what a cut body    *)
(* delivers); trace validation: observed importer contents after every op.   *)
VARIABLES hist, done
GenInit == Init /\ hist = <<>> /\ done = FALSE
GenStep == clk < MaxOps /\ Next /\ hist' = Append(hist, op') /\ UNCHANGED done
Finish == clk = MaxOps /\ ~done /\ done' = TRUE /\ UNCHANGED <<vars, hist>>
GenSpec == GenInit /\ [][GenStep \/ Finish]_<<vars, hist, done>>
Emit == done => PrintT("TRACE " \o ToJson(hist))
=============================================================================
