------------------------------ MODULE StoreRef ------------------------------
(* Refinement Store => ExpiryMap (C07, C11) and the lossy-map reading of    *)
(* collisions (C09).                                                        *)
EXTENDS Store

TTLsSmall == {0, 1, -1}
TTLsWide  == {0, 1, 2, -1, -2}
Neg1 == -1                   \* negative constants for configuration files (a .cfg cannot spell a negative number)
Neg2 == -2
TTLsZero  == {0}             \* no per-call TTL at all: with UnlimitedTTL nothing ever carries an expiry
TTLsJan   == {0, 2, -1, -5}    \* real-clock runs: fresh / just expired / expired longer than DeleteExpiredAfter

HashInj  == [k \in Keys |-> k]
(* k1 and k2 share a slot (hash collision), all other keys have their own.  *)
HashColl == [k \in Keys |-> IF k = "k2" THEN "k1" ELSE k]

EM == INSTANCE ExpiryMap WITH m <- AbsM
RefinesExpiryMap == EM!Spec

(* C09 on the model: a step of the store changes the abstract entry of a    *)
(* key k only if the operation names k, is a batch operation, or names a    *)
(* key that collides with k - and then the only possible change is that k   *)
(* becomes absent (a collision costs at most a miss).                       *)
Batch == {"ExpireAll", "DeleteAll", "Cleanup"}
Isolation ==
  [][\A k \in Keys :
       AbsM'[k] # AbsM[k] =>
         \/ op'.name \in Batch
         \/ op'.k = k
         \/ (op'.k \in Keys /\ Hash[op'.k] = Hash[k] /\ op'.name \in {"Write", "Store"}
               /\ AbsM'[k] = [v |-> "-", e |-> 0])]_vars

(* Replies about k are derived from k's own entry only.                      *)
ReplyFromOwnKey ==
  [][op'.name \in {"Read", "Load"} /\ reply'.r \in {"hit", "expired"} =>
        /\ Holds(op'.k)
        /\ reply'.v = slot[Hash[op'.k]].v]_vars

DeleteOwnKeyOnly ==
  [][op'.name = "Delete" =>
        \A k \in Keys : k # op'.k /\ Holds(k) => (Holds(k))']_vars
=============================================================================
