-------------------------- MODULE FailoverKeyLock --------------------------
(* Failover.tla refines the key-lock protocol KeyLock.tla (whose invariant  *)
(* Apalache proves inductive): checked by TLC as the property KL!Spec.      *)
EXTENDS Failover

OwnerOf(id) == CHOOSE p \in Procs : loc[p].owner /\ loc[p].lk = id

Elected(p) == pc[p] \notin {"idle", "preread", "elect"} /\ loc[p].lk # 0

AbsPc(p) ==
  IF pc[p] = "done" THEN "done"
  ELSE IF ~Elected(p) THEN "idle"
  ELSE IF ~loc[p].owner THEN "waiting"
  ELSE IF pc[p] = "bend" THEN "building"
  ELSE IF pc[p] \in {"bwrite", "failstat", "errwrite", "changestat", "buildstat", "publish", "warnlog", "decide"} THEN "built"
  ELSE IF pc[p] = "release" /\ loc[p].bn > 0 THEN "built"
  ELSE "owner"

KL == INSTANCE KeyLock WITH
        lockOwner <- [k \in Keys |-> IF locks[k] = 0 THEN "" ELSE OwnerOf(locks[k])],
        pc <- [p \in Procs |-> AbsPc(p)],
        waitsOn <- [p \in Procs |-> IF Elected(p) /\ ~loc[p].owner THEN OwnerOf(loc[p].lk) ELSE ""],
        closed <- [p \in Procs |-> Elected(p) /\ loc[p].owner /\ lrec[loc[p].lk].closed]

RefinesKeyLock == KL!Spec
KeyLockInv == KL!IndInv
=============================================================================
