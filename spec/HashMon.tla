------------------------------- MODULE HashMon -------------------------------
(* C14, types hash: every line is the GobTypesHash() printed by a FRESH       *)
(* process after registering a multiset of types in some order; `set` is the  *)
(* canonical name of the SET of types.  The hash must be a function of the    *)
(* set (same in every process, any order, any multiplicity) and must differ   *)
(* between different sets (it changes when a type is added).                  *)
EXTENDS Integers, Sequences, TLC, Json
CONSTANT TraceFile
Trace == ndJsonDeserialize(TraceFile)
VARIABLES l, seen
At(f, k, d) == IF k \in DOMAIN f THEN f[k] ELSE d
Put(f, k, v) == [x \in DOMAIN f \cup {k} |-> IF x = k THEN v ELSE f[x]]
Init == l = 1 /\ seen = <<>>
Next ==
  /\ l <= Len(Trace) /\ l' = l + 1
  /\ LET e == Trace[l] IN
     /\ At(seen, e.set, e.hash) = e.hash                               \* function of the set
     /\ \A s \in DOMAIN seen : s # e.set => seen[s] # e.hash           \* different sets, different hash
     /\ seen' = Put(seen, e.set, e.hash)
TraceSpec == Init /\ [][Next]_<<l, seen>>
TraceAccepted ==
  LET d == TLCGet("stats").diameter IN
  IF d - 1 = Len(Trace) THEN TRUE ELSE Print(<<"TRACE_REJECTED_AT_LINE", d>>, FALSE)
=============================================================================
