---- MODULE KeyLockMC ----
EXTENDS KeyLock
\* @type: Set(Str);
P5 == {"p1","p2","p3","p4","p5","p6"}
\* @type: Set(Str);
K2 == {"k1","k2","k3"}
\* @type: Str -> Str;
KO == [p \in P5 |-> IF p \in {"p1","p2","p3"} THEN "k1" ELSE IF p = "p4" THEN "k2" ELSE "k3"]
ConstInit == Procs = P5 /\ Keys = K2 /\ KeyOf = KO
====
