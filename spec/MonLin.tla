-------------------------------- MODULE MonLin --------------------------------
(***************************************************************************)
(* MonLin (C08): per-key linearizability of the backends.                   *)
(*                                                                         *)
(* Input: the sub-history of ONE key of a really concurrent run on a real   *)
(* backend - call and return events of every operation that names the key   *)
(* and of every batch operation (ExpireAll, DeleteAll, janitor cycle,        *)
(* eviction, Walk), ordered by a global atomic stamp taken before the call   *)
(* and after the return.  Each call line already carries the result the      *)
(* operation eventually returned (the file is written after the run).        *)
(*                                                                         *)
(* The key's abstract state is Absent or [v, cls], cls in                    *)
(*   "fresh" (expires in an hour), "stale" (just expired: negative TTL or    *)
(*   ExpireAll), "old" (expired longer than DeleteExpiredAfter ago);         *)
(* the classes are hours apart on the real clock, so the seconds a run       *)
(* takes never move an entry from one class to another.                      *)
(*                                                                         *)
(* A silent step Lin(i) applies a pending operation at its linearization     *)
(* point; it is enabled only if the operation's recorded result is what the  *)
(* specification yields there (look-ahead) and only when the next line is    *)
(* the return of an operation that is not linearized yet (lazy) - neither    *)
(* rule loses behaviours (DESIGN.md 3.8).  A sub-history is accepted iff     *)
(* some sequence of steps consumes every line.                               *)
(***************************************************************************)
EXTENDS Integers, Sequences, FiniteSets, TLC, Json

CONSTANTS TraceFile,
          Mode      \* "lin": linearizability (C08);  "metrics": accounting of removals (C18), see MetricDelete below;
                    \* "lin-syncjanitor" / "lin-syncexpire" / "lin-syncall": "lin" plus the named deviations of SyncMap
                    \* (known findings KF-C08-1 / KF-C08-2, see DevJ / DevE)
Trace == ndJsonDeserialize(TraceFile)

VARIABLES l, st, pend, ever, removed

vars == <<l, st, pend, ever, removed>>

Absent == [v |-> "-", cls |-> "-"]

(* Named deviations of SyncMap (never enabled for the sharded maps, and only used to CLASSIFY a sub-history that the    *)
(* strict mode rejected):                                                                                              *)
(*  DevJ  the janitor checks an entry and then deletes BY KEY: what a Write or an ExpireAll that overlaps the cycle      *)
(*        (Cleanup line with quiet = FALSE) did to the key in between can be lost - the entry is removed although it is  *)
(*        no longer "expired longer than DeleteExpiredAfter";                                                                              *)
(*  DevE  ExpireAll updates the expiration IN PLACE with its own start time: a Read that overlaps it (Read line with     *)
(*        quiet = FALSE) and sampled its clock earlier can take an expired entry for fresh.                             *)
DevJ == Mode \in {"lin-syncjanitor", "lin-syncall"}
DevE == Mode \in {"lin-syncexpire", "lin-syncall"}
Ev == Trace[l]

SeqToSet(s) == {s[i] : i \in DOMAIN s}

(* Result check and effect of operation o applied in state s: set of        *)
(* possible successor states (empty = the recorded result is impossible).   *)
Apply(o, s) ==
  CASE o.op = "Write" -> {[v |-> o.v, cls |-> o.cls]}
    [] o.op = "Read" ->
         IF (o.res = "hit" /\ s # Absent /\ s.cls = "fresh" /\ s.v = o.rv)
            \/ (DevE /\ ~o.quiet /\ o.res = "hit" /\ s # Absent /\ s.v = o.rv)
            \/ (o.res = "expired" /\ s # Absent /\ s.cls \in {"stale", "old"} /\ s.v = o.rv)
            \/ (o.res = "notfound" /\ s = Absent)
           THEN {s} ELSE {}
    [] o.op = "Delete" ->
         IF o.res = "ok" /\ s # Absent THEN {Absent}
         ELSE IF o.res = "notfound" /\ s = Absent THEN {Absent}
         ELSE IF Mode = "metrics" THEN {Absent}     \* wrong result is C08's business; only real removals are counted
         ELSE {}
    [] o.op = "ExpireAll" -> {IF s = Absent THEN Absent ELSE [s EXCEPT !.cls = "stale"]}
    [] o.op = "DeleteAll" -> {Absent}
    [] o.op = "Drop" -> {Absent}              \* write of the key that shares this key's 64-bit hash takes the slot
    [] o.op = "Cleanup" ->
         \* Named deviation (known finding KF-C08-1, SyncMap only, Mode "lin-syncjanitor"): SyncMap's janitor checks an
         \* entry and then deletes BY KEY, so a Write of the key that overlaps the cycle (o.quiet = FALSE) can be lost.
         IF DevJ /\ ~o.quiet
           THEN {IF s # Absent /\ s.cls = "old" THEN Absent ELSE s, Absent}
           ELSE {IF s # Absent /\ s.cls = "old" THEN Absent ELSE s}
    [] o.op = "Evict" -> {s, Absent}          \* eviction may take any entry; rank order is property C12
    \* cache_delete read at the end of a single-key history without batch operations: one per entry actually removed
    [] o.op = "MetricDelete" -> IF Mode = "metrics" /\ o.n # removed THEN {} ELSE {s}
    [] o.op = "Walk" ->
         IF o.quiet
           THEN IF (s = Absent /\ o.visits = <<>>) \/ (s # Absent /\ o.visits = <<s.v>>) THEN {s} ELSE {}
           ELSE IF SeqToSet(o.visits) \subseteq ever THEN {s} ELSE {}
    [] OTHER -> {}

Init == l = 1 /\ st = Absent /\ pend = {} /\ ever = {} /\ removed = 0 /\ TLCSet(1, 1)

NextIsUnlinearizedRet ==
  l <= Len(Trace) /\ Ev.ev = "ret" /\ \E o \in pend : o.id = Ev.id

Call ==
  /\ l <= Len(Trace) /\ Ev.ev = "call"
  /\ pend' = pend \cup {Ev}
  /\ ever' = IF Ev.op = "Write" THEN ever \cup {Ev.v} ELSE ever
  /\ l' = l + 1 /\ UNCHANGED <<st, removed>>

Lin ==
  /\ NextIsUnlinearizedRet
  /\ \E o \in pend :
        /\ st' \in Apply(o, st)
        /\ pend' = pend \ {o}
        /\ removed' = IF o.op \in {"Delete", "DeleteAll"} /\ st # Absent THEN removed + 1 ELSE removed
  /\ UNCHANGED <<l, ever>>

Ret ==
  /\ l <= Len(Trace) /\ Ev.ev = "ret"
  /\ \A o \in pend : o.id # Ev.id
  /\ l' = l + 1 /\ UNCHANGED <<st, pend, ever, removed>>

(* Mode "count": no early stop; every linearization of every sub-history is explored and the number of entries  *)
(* actually removed by Delete / DeleteAll in it is printed when the sub-history ends (the following reset line), so  *)
(* that the orchestrator can compare cache_delete of a whole history with the sums that are possible (C18).          *)
Reset ==
  /\ l <= Len(Trace) /\ Ev.ev = "reset"
  /\ (Mode = "count" /\ pend = {}) => PrintT(<<"REMOVED", l, removed>>)
  /\ l' = l + 1 /\ st' = Absent /\ pend' = {} /\ ever' = {} /\ removed' = 0

Next == Call \/ Lin \/ Ret \/ Reset
TraceSpec == Init /\ [][Next]_vars

(* High-water mark of consumed lines (silent steps make the diameter useless). *)
HighWater == TLCSet(1, IF l > TLCGet(1) THEN l ELSE TLCGet(1))

(* Reaching the end of the file is reported as a violation of this "invariant": *)
(* TLC then stops at the first complete linearization instead of enumerating  *)
(* all of them.                                                               *)
NotDone == l <= Len(Trace)

TraceAccepted ==
  IF TLCGet(1) = Len(Trace) + 1 THEN TRUE
  ELSE Print(<<"TRACE_REJECTED_AT_LINE", TLCGet(1)>>, FALSE)
=============================================================================
