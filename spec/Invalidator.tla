----------------------------- MODULE Invalidator -----------------------------
(***************************************************************************)
(* Invalidator (invalidator.go): flood-protected trigger that runs all      *)
(* registered callbacks, at most once per SkipInterval.  The mutex is held  *)
(* across the callbacks, so accepted calls are serial; time is an integer   *)
(* number of units (1 unit = 1 s of virtual time in the harness).           *)
(***************************************************************************)
EXTENDS Integers, Sequences, TLC, Json

CONSTANTS
  Skip,      \* SkipInterval in units (the library default is 15 s when left zero)
  NCb,       \* number of registered callbacks
  Steps,     \* possible time advances between calls
  MaxCalls

VARIABLES t, lastRun, log, reply, calls, hist, done

vars == <<t, lastRun, log, reply, calls, hist, done>>

Never == -100000

Init == t = 0 /\ lastRun = Never /\ log = <<>> /\ reply = "" /\ calls = 0 /\ hist = <<>> /\ done = FALSE

Accepts == NCb > 0 /\ (lastRun = Never \/ t - lastRun >= Skip)     \* the very first call is accepted whatever the interval

(* Invalidate(ctx) *)
Call ==
  /\ calls < MaxCalls
  /\ calls' = calls + 1
  /\ IF NCb = 0
       THEN reply' = "nothing" /\ UNCHANGED <<lastRun, log>>
       ELSE IF Accepts
         THEN /\ reply' = "ok"
              /\ lastRun' = t
              /\ log' = log \o [i \in 1..NCb |-> i]       \* every callback once, in registration order
         ELSE reply' = "already" /\ UNCHANGED <<lastRun, log>>
  /\ UNCHANGED t

Advance(d) == calls < MaxCalls /\ t + d <= MaxCalls * (Skip + 1) /\ t' = t + d /\ reply' = "" /\ UNCHANGED <<lastRun, log, calls>>

Next == Call \/ \E d \in Steps : Advance(d)

(* C17 on the model *)
Spacing == TRUE
AcceptedSpaced ==
  [][(reply' = "ok" /\ calls' # calls) => (lastRun = Never \/ t - lastRun >= Skip)]_<<t, lastRun, log, reply, calls>>
RejectedRunNothing ==
  [][(reply' \in {"already", "nothing"} /\ calls' # calls) => log' = log]_<<t, lastRun, log, reply, calls>>
AcceptedRunAll ==
  [][(reply' = "ok" /\ calls' # calls) => (Len(log') = Len(log) + NCb /\ \A i \in 1..NCb : log'[Len(log) + i] = i)]_<<t, lastRun, log, reply, calls>>

(* generator *)
GenStep ==
  /\ Next
  /\ hist' = Append(hist, [op |-> IF calls' # calls THEN "Call" ELSE "Adv", d |-> t' - t, reply |-> reply',
                           nlog |-> Len(log')])
  /\ UNCHANGED done
Finish == calls = MaxCalls /\ ~done /\ done' = TRUE /\ UNCHANGED <<t, lastRun, log, reply, calls, hist>>
GenSpec == Init /\ [][GenStep \/ Finish]_vars
Spec == Init /\ [][Next /\ UNCHANGED <<hist, done>>]_vars
View == <<t, lastRun, calls, reply, Len(log)>>
Emit == done => PrintT("TRACE " \o ToJson(hist))
=============================================================================
