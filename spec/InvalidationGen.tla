--------------------------- MODULE InvalidationGen ---------------------------
(* Schedule generator for Invalidation (tlc -simulate, RunToGate = TRUE):    *)
(* one entry per model step; `end` marks the end of a macro-step, `st` the   *)
(* cache contents the harness compares there, gd/gk the Delete call-out the  *)
(* call is parked at.                                                        *)
EXTENDS Invalidation, Json

VARIABLES hist, done

NoRes == [done |-> FALSE, n |-> 0, err |-> ""]

Snap == [cont |-> [d \in Dels |-> cont[d]]]

GenInit == Init /\ hist = <<>> /\ done = FALSE

GenStep ==
  /\ ~AllDone
  /\ Next
  /\ LET p == act'.p IN
     hist' = Append(hist, [p |-> p, name |-> act'.name, a |-> act'.a, b |-> act'.b, c |-> act'.c,
                           pcb |-> IF p = "" THEN "" ELSE pc[p],
                           pca |-> IF p = "" THEN "" ELSE pc'[p],
                           end |-> (running' = "none"),
                           res |-> IF p = "" THEN NoRes ELSE res'[p],
                           gd |-> IF p # "" /\ pc'[p] = "delete"
                                    THEN loc'[p].dsnap[loc'[p].name][loc'[p].di] ELSE "",
                           gk |-> IF p # "" /\ pc'[p] = "delete"
                                    THEN (IF Args(p)[loc'[p].li] \in DOMAIN loc'[p].cut
                                            THEN loc'[p].cut[Args(p)[loc'[p].li]][loc'[p].ki] ELSE "") ELSE "",
                           st |-> Snap'])
  /\ UNCHANGED done

Finish == AllDone /\ ~done /\ done' = TRUE /\ UNCHANGED <<vars, hist>>
GenNext == GenStep \/ Finish
GenSpec == GenInit /\ [][GenNext]_<<vars, hist, done>>
Emit == done => PrintT("TRACE " \o ToJson(hist))
=============================================================================
