-------------------------- MODULE InvalidationTrace --------------------------
(***************************************************************************)
(* Code -> model for the InvalidationIndex under REAL concurrency: an event  *)
(* trace of free-running goroutines calling AddLabels / AddCache /           *)
(* InvalidateByLabels on one index is accepted iff it is a behaviour of      *)
(* Invalidation.tla.                                                        *)
(*                                                                         *)
(* Logged (recorder mutex = total order of the lines):                      *)
(*   envcall(t, op, ...)  AddLabels / AddCache entered                       *)
(*   envret(t)            ... returned                                       *)
(*   put(d, k)            cache write (atomic with its line)                 *)
(*   invcall(p)           InvalidateByLabels entered (arguments = ArgsOf[p]) *)
(*   delete(p, d, k, c)   Deleter.Delete call-out of call p, executed on the *)
(*                        cache and logged under the recorder mutex;         *)
(*                        c = ok | notfound | fault                          *)
(*   invret(p, n, err)    InvalidateByLabels returned                        *)
(*   final(cont)          contents of all caches at quiescence               *)
(* NOT logged (silent): the linearization point of AddLabels / AddCache      *)
(* between envcall and envret, and everything InvalidateByLabels does under  *)
(* its mutex between call-outs (Snapshot, CutKeys per name in any order,     *)
(* loop control, PutBack, return).                                           *)
(*                                                                         *)
(* Loop control (Advance, AllNamesDone) reads and writes only the locals of  *)
(* its call, so it commutes with every other step: it is taken eagerly       *)
(* (lowest call first), which removes its interleavings from the search      *)
(* without removing any explanation.                                         *)
(***************************************************************************)
EXTENDS Invalidation, Json

CONSTANT TraceFile
Trace == ndJsonDeserialize(TraceFile)

EnvIds == {Trace[i].p : i \in {j \in DOMAIN Trace : Trace[j].ev = "envcall"}}
OpOf(t) == Trace[CHOOSE i \in DOMAIN Trace : Trace[i].ev = "envcall" /\ Trace[i].p = t]

VARIABLES l,
          est,       \* [EnvIds -> "none" | "called" | "lin" | "done"]
          started    \* SUBSET Procs: calls whose invcall line was consumed

tvars == <<vars, l, est, started>>
Ev == Trace[l]

Local(q) == pc[q] = "advance" \/ (pc[q] = "nextname" /\ loc[q].names = {})
SomeLocal == \E q \in Procs : Local(q)
(* any fixed choice will do: CHOOSE is deterministic *)
TheLocal == CHOOSE q \in Procs : Local(q)

LocalStep ==
  /\ SomeLocal
  /\ LET q == TheLocal IN Advance(q) \/ AllNamesDone(q)
  /\ UNCHANGED <<l, est, started>>

Lin(t) ==
  /\ est[t] = "called"
  /\ est' = [est EXCEPT ![t] = "lin"]
  /\ LET o == OpOf(t) IN
     CASE o.op = "AddLabels" -> AddLabels(o.name, o.k, o.ls)
       [] o.op = "AddCache"  -> AddCache(o.d) /\ NameOfDel[o.d] = o.name
       [] OTHER -> FALSE
  /\ UNCHANGED <<l, started>>

SharedSilent ==
  \/ \E q \in started : Snapshot(q) /\ UNCHANGED <<l, est, started>>
  \/ \E q \in Procs, n \in Names : CutKeys(q, n) /\ UNCHANGED <<l, est, started>>
  \/ \E q \in Procs : PutBack(q) /\ UNCHANGED <<l, est, started>>
  \/ \E t \in EnvIds : Lin(t)

TracePut(d, k) ==
  /\ cont' = [cont EXCEPT ![d] = @ \cup {k}]
  /\ envn' = envn + 1
  /\ Act("", "Put", d, k, <<>>)
  /\ UNCHANGED <<labeled, known, regd, pc, loc, res, faults, running>>

SetOf(s) == {s[i] : i \in DOMAIN s}

Logged(e) ==
  CASE e.ev = "envcall" -> /\ est[e.p] = "none" /\ est' = [est EXCEPT ![e.p] = "called"]
                           /\ UNCHANGED <<vars, started>>
    [] e.ev = "envret"  -> /\ est[e.p] = "lin" /\ est' = [est EXCEPT ![e.p] = "done"]
                           /\ UNCHANGED <<vars, started>>
    [] e.ev = "put"     -> TracePut(e.d, e.k) /\ UNCHANGED <<est, started>>
    [] e.ev = "invcall" -> /\ e.p \notin started /\ pc[e.p] = "idle" /\ started' = started \cup {e.p}
                           /\ e.ls = ArgsOf[e.p]
                           /\ UNCHANGED <<vars, est>>
    [] e.ev = "delete"  -> /\ Delete(e.p, e.c = "fault")
                           /\ act'.a = e.d /\ act'.b = e.k /\ act'.c = <<e.c>>
                           /\ UNCHANGED <<est, started>>
    [] e.ev = "invret"  -> /\ pc[e.p] = "done" /\ res[e.p].done /\ res[e.p].n = e.n /\ res[e.p].err = e.err
                           /\ UNCHANGED <<vars, est, started>>
    [] e.ev = "final"   -> /\ \A d \in Dels : cont[d] = SetOf(e.cont[d])
                           /\ UNCHANGED <<vars, est, started>>
    [] OTHER -> FALSE

Consume == l <= Len(Trace) /\ Logged(Ev) /\ l' = l + 1

TraceInit == Init /\ l = 1 /\ est = [t \in EnvIds |-> "none"] /\ started = {} /\ TLCSet(1, 1)
TraceNext ==
  IF SomeLocal THEN LocalStep
  ELSE Consume \/ (l <= Len(Trace) /\ SharedSilent)
TraceSpec == TraceInit /\ [][TraceNext]_tvars

HighWater == TLCSet(1, IF l > TLCGet(1) THEN l ELSE TLCGet(1))
NotDone == l <= Len(Trace)
TraceAccepted ==
  IF TLCGet(1) = Len(Trace) + 1 THEN TRUE ELSE Print(<<"TRACE_REJECTED_AT_LINE", TLCGet(1)>>, FALSE)

TView == <<View, l, est, started>>
=============================================================================
