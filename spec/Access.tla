-------------------------------- MODULE Access --------------------------------
(***************************************************************************)
(* Lock discipline of the public API (C16).  Every public operation is      *)
(* transcribed from the code as a sequence of steps on abstract locations   *)
(*   acq/rel (exclusive), racq/rrel (shared) of a lock,                     *)
(*   rd / wr   plain read / write of a location,                            *)
(*   ard / awr atomic read / write (sync/atomic, sync.Map, channel ops).    *)
(* Two processes run one operation each on a shared object (one shard, one  *)
(* entry, one key-lock map, one label index).  A state in which both        *)
(* processes' next steps are accesses to the same location, at least one a  *)
(* write and not both atomic, is a data race under the Go memory model (no  *)
(* lock orders them, otherwise one of them would be blocked).               *)
(*                                                                         *)
(* TLC enumerates every pair of operations (initial states) and prints the  *)
(* racy pairs; the harness runs the same pairs on the real code under the   *)
(* Go race detector, which is the oracle for the verdict.                   *)
(*                                                                         *)
(* Variant = "sharded" | "sync": ShardedMap / ShardedMapOf versus SyncMap   *)
(* (sync.Map is internally synchronised: its map accesses are atomic).      *)
(* Lru = TRUE: LRU/LFU bookkeeping enabled (PrepareRead updates C).         *)
(***************************************************************************)
EXTENDS Integers, Sequences, FiniteSets, TLC

CONSTANTS Variant, Lru

S(k, x) == [k |-> k, x |-> x]

MapRd == IF Variant = "sync" THEN <<S("ard", "map")>> ELSE <<S("racq", "shard"), S("rd", "map"), S("rrel", "shard")>>
MapWr == IF Variant = "sync" THEN <<S("awr", "map")>> ELSE <<S("acq", "shard"), S("wr", "map"), S("rel", "shard")>>
Touch == IF Lru THEN <<S("awr", "C")>> ELSE <<>>
(* a callback / encoder looking at an entry it was handed: value-receiver methods copy the whole struct *)
LookEntry == <<S("rd", "E"), S("rd", "C"), S("rd", "V")>>

Ops == [
  Read      |-> MapRd \o Touch \o <<S("rd", "E"), S("rd", "V")>>,                     \* lookup, PrepareRead
  Write     |-> MapWr,                                                                \* new entry published under the lock
  Delete    |-> MapWr,
  Len       |-> MapRd,
  ExpireAll |-> IF Variant = "sync"
                  THEN <<S("ard", "map"), S("wr", "E")>>                              \* sync_map.go: entry mutated in place
                  ELSE <<S("acq", "shard"), S("rd", "map"), S("wr", "map"), S("rel", "shard")>>,   \* entry replaced under the lock
  DeleteAll |-> MapWr,
  Walk      |-> MapRd \o LookEntry,                                                   \* callback runs outside the lock
  Dump      |-> MapRd \o LookEntry \o <<S("rd", "K")>>,                               \* gob encodes all exported fields
  Restore   |-> MapWr,
  Janitor   |-> (IF Variant = "sync" THEN <<S("ard", "map"), S("rd", "E"), S("awr", "map")>>
                                     ELSE <<S("acq", "shard"), S("rd", "map"), S("rd", "E"), S("wr", "map"), S("rel", "shard")>>)
                \o (IF Variant = "sync" THEN <<S("ard", "map"), S("ard", "E"), S("ard", "C"), S("awr", "map")>>
                                        ELSE <<S("racq", "shard"), S("rd", "map"), S("ard", "E"), S("ard", "C"), S("rrel", "shard"),
                                               S("acq", "shard"), S("wr", "map"), S("rel", "shard")>>),
  (* Failover.Get: key-lock map under Failover.lock, lock record published by close (channel) *)
  GetOwner  |-> <<S("acq", "folock"), S("rd", "keylocks"), S("wr", "keylocks"), S("rel", "folock"),
                  S("wr", "klval"), S("acq", "folock"), S("wr", "keylocks"), S("awr", "klchan"), S("rel", "folock")>>,
  GetWaiter |-> <<S("acq", "folock"), S("rd", "keylocks"), S("rel", "folock"), S("wait", "klchan"), S("rd", "klval")>>,
  (* InvalidationIndex *)
  AddLabels |-> <<S("acq", "mu"), S("rd", "names"), S("wr", "names"), S("wr", "labels"), S("rel", "mu")>>,
  AddCache  |-> <<S("acq", "mu"), S("wr", "deleters"), S("rel", "mu")>>,
  Invalidate |-> <<S("acq", "mu"), S("rd", "names"), S("rd", "deleters"), S("rel", "mu"),       \* snapshot, iterated later
                   S("acq", "mu"), S("rd", "labels"), S("wr", "labels"), S("rel", "mu")>>,        \* cutKeys / put-back
  (* Invalidator *)
  InvalidatorCall |-> <<S("rd", "callbacks"), S("acq", "imu"), S("rd", "skipinterval"), S("wr", "skipinterval"),   \* default installed under the mutex
                        S("rd", "lastrun"), S("wr", "lastrun"), S("rel", "imu")>>
]

OpNames == DOMAIN Ops
Procs == {1, 2}

VARIABLES opOf, pc, held, rheld, closed

vars == <<opOf, pc, held, rheld, closed>>

Init ==
  /\ opOf \in [Procs -> OpNames]
  /\ pc = [p \in Procs |-> 1]
  /\ held = {}          \* exclusive locks held: set of <<lock, proc>>
  /\ rheld = {}         \* shared locks held
  /\ closed = FALSE     \* lock record channel closed (GetOwner done)

Done(p) == pc[p] > Len(Ops[opOf[p]])
Cur(p) == Ops[opOf[p]][pc[p]]

Enabled(p) ==
  /\ ~Done(p)
  /\ LET s == Cur(p) IN
     CASE s.k = "acq"  -> (\A q \in Procs : <<s.x, q>> \notin held) /\ (\A q \in Procs \ {p} : <<s.x, q>> \notin rheld)
       [] s.k = "racq" -> \A q \in Procs : <<s.x, q>> \notin held
       [] s.k = "wait" -> closed
       [] OTHER -> TRUE

Step(p) ==
  /\ Enabled(p)
  /\ LET s == Cur(p) IN
     /\ held' = CASE s.k = "acq" -> held \cup {<<s.x, p>>} [] s.k = "rel" -> held \ {<<s.x, p>>} [] OTHER -> held
     /\ rheld' = CASE s.k = "racq" -> rheld \cup {<<s.x, p>>} [] s.k = "rrel" -> rheld \ {<<s.x, p>>} [] OTHER -> rheld
     /\ closed' = (closed \/ (s.k = "awr" /\ s.x = "klchan"))
  /\ pc' = [pc EXCEPT ![p] = @ + 1]
  /\ UNCHANGED opOf

Next == \E p \in Procs : Step(p)
Spec == Init /\ [][Next]_vars

IsAccess(s) == s.k \in {"rd", "wr", "ard", "awr"}
IsWrite(s) == s.k \in {"wr", "awr"}
IsAtomic(s) == s.k \in {"ard", "awr"}

Race ==
  /\ Enabled(1) /\ Enabled(2)
  /\ IsAccess(Cur(1)) /\ IsAccess(Cur(2)) /\ Cur(1).x = Cur(2).x
  /\ (IsWrite(Cur(1)) \/ IsWrite(Cur(2)))
  /\ ~(IsAtomic(Cur(1)) /\ IsAtomic(Cur(2)))

(* The key-lock record value is read by a waiter only after the close: the   *)
(* channel orders the accesses (happens-before), so "klval" never races.     *)
(* Report every racy pair, then prune the state (CONSTRAINT).                *)
Report ==
  IF Race THEN PrintT(<<"RACE", opOf[1], opOf[2], Cur(1).x>>) /\ FALSE ELSE TRUE

NoRace == ~Race
=============================================================================
