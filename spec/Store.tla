------------------------------- MODULE Store -------------------------------
(***************************************************************************)
(* Implementation-shaped model of the in-memory backends of bool64/cache   *)
(* (ShardedMap, ShardedMapOf[V], SyncMap): sharded_map.go,                  *)
(* sharded_map_go1.18.go, sync_map.go, trait.go.                            *)
(*                                                                         *)
(* The sharded maps index entries by the 64-bit hash of the key and keep    *)
(* the key bytes in the entry; `Hash` maps model keys to slots, a           *)
(* non-injective Hash is a hash collision.  SyncMap is the same model with  *)
(* an injective Hash.                                                       *)
(*                                                                         *)
(* One action per public operation (sequentially each is one critical       *)
(* section); the janitor cycle `Cleanup` is DeleteExpired followed by the   *)
(* eviction decision and Evict, as in Trait.invokeCleanup.                  *)
(*                                                                         *)
(* Output-only variables (op, reply, met, cnt) are excluded by VIEW in      *)
(* exhaustive configurations.                                               *)
(***************************************************************************)
EXTENDS Integers, Sequences, FiniteSets, TLC

CONSTANTS
  Keys, Vals,
  Hash,          \* [Keys -> slot id]
  TTLs,          \* per-call TTL choices (ticks), 0 = default
  CfgTTL,        \* configured TimeToLive (ticks)
  Unlimited,     \* BOOLEAN: TimeToLive = UnlimitedTTL
  DEA,           \* DeleteExpiredAfter (ticks)
  CountLimit,    \* CountSoftLimit, 0 = off
  FracNum, FracDen,  \* EvictFraction = FracNum / FracDen
  Strategy,      \* "expired" | "lru" | "lfu"
  EvictNeeded,   \* BOOLEAN: EvictionNeeded callback configured (may answer TRUE)
  ForceEvict,    \* BOOLEAN: a heap / system memory soft limit is breached in every cycle (limit of one byte)
  FloatSlack,    \* BOOLEAN: the evicted amount may be off by one entry (the code computes it in floating point;
                 \* C12 says "within one entry"); FALSE where the parameters make floating point exact
  MaxNow,
  MaxOps         \* bound on the operation counter (only used by CONSTRAINT / generators)

VARIABLES
  now,      \* tick counter
  slot,     \* [Slots -> Entry \cup {None}]
  expSeen,  \* Trait.expirationsSet > 0
  clk,      \* number of operations executed so far (stamp source for LRU)
  op,       \* description of the last operation (output only)
  reply,    \* its result (output only)
  met,      \* metric counters (output only)
  cnt       \* ghost counters of events, for the accounting identities (output only)

NoExp == 999
NoVal == ""
None  == [k |-> "-", v |-> NoVal, e |-> 0, c |-> 0]
Slots == {Hash[k] : k \in Keys}

Rep(r, v, e, n) == [r |-> r, v |-> v, e |-> e, n |-> n]
Op(name, k, v, ttl, skip) == [name |-> name, k |-> k, v |-> v, ttl |-> ttl, skip |-> skip]

Metrics == {"hit", "miss", "expired", "write", "delete", "evict"}
Ghosts  == {"reads", "writes", "touched", "removed", "evicted"}

Used(s)   == {h \in Slots : s[h] # None}
Holds(k)  == slot[Hash[k]] # None /\ slot[Hash[k]].k = k

EffTTL(ttl)   == IF ttl # 0 THEN ttl ELSE IF Unlimited THEN 0 ELSE CfgTTL
ExpiryOf(ttl) == IF EffTTL(ttl) = 0 THEN NoExp ELSE now + EffTTL(ttl)
Expired(en)   == en.e <= now           \* NoExp = 999 is never <= now

Bump(f, name, d) == [f EXCEPT ![name] = @ + d]

Init ==
  /\ now = 0
  /\ slot = [h \in Slots |-> None]
  /\ expSeen = FALSE
  /\ clk = 0
  /\ op = Op("Init", "", NoVal, 0, FALSE)
  /\ reply = Rep("init", NoVal, 0, 0)
  /\ met = [x \in Metrics |-> 0]
  /\ cnt = [x \in Ghosts |-> 0]

---------------------------------------------------------------------------
(* Write / Store: replaces whatever the slot held (a colliding key evicts   *)
(* the other key's entry: "a collision may at most cost a cache miss").     *)
WriteAs(name, k, v, ttl) ==
  /\ slot' = [slot EXCEPT ![Hash[k]] = [k |-> k, v |-> v, e |-> ExpiryOf(ttl), c |-> 0]]
  /\ expSeen' = (expSeen \/ (Unlimited /\ EffTTL(ttl) # 0))
  /\ met' = Bump(met, "write", 1)
  /\ cnt' = Bump(cnt, "writes", 1)
  /\ reply' = Rep("ok", NoVal, 0, 0)
  /\ op' = Op(name, k, v, ttl, FALSE)
  /\ clk' = clk + 1
  /\ UNCHANGED now

Write(k, v, ttl) == WriteAs("Write", k, v, ttl)
Store(k, v)      == WriteAs("Store", k, v, 0)

(* Read / Load: SkipRead short-circuits before any lookup or metric.  The   *)
(* lookup compares the stored key bytes; PrepareRead then updates the       *)
(* LRU/LFU counter (also for expired entries, as coded) and classifies.     *)
Touch(en) ==
  CASE Strategy = "lru" -> [en EXCEPT !.c = clk + 1]
    [] Strategy = "lfu" -> [en EXCEPT !.c = @ + 1]
    [] OTHER            -> en

ReadAs(name, k, skip) ==
  /\ op' = Op(name, k, NoVal, 0, skip)
  /\ clk' = clk + 1
  /\ UNCHANGED <<now, expSeen>>
  /\ IF skip
       THEN /\ reply' = Rep("notfound", NoVal, 0, 0)
            /\ UNCHANGED <<slot, met, cnt>>
       ELSE /\ cnt' = Bump(cnt, "reads", 1)
            /\ IF ~Holds(k)
                 THEN /\ reply' = Rep("notfound", NoVal, 0, 0)
                      /\ met' = Bump(met, "miss", 1)
                      /\ UNCHANGED slot
                 ELSE LET en == slot[Hash[k]] IN
                      /\ slot' = [slot EXCEPT ![Hash[k]] = Touch(en)]
                      /\ IF Expired(en)
                           THEN reply' = Rep("expired", en.v, en.e, 0) /\ met' = Bump(met, "expired", 1)
                           ELSE reply' = Rep("hit", en.v, 0, 0) /\ met' = Bump(met, "hit", 1)

Read(k, skip) == ReadAs("Read", k, skip)
Load(k)       == ReadAs("Load", k, FALSE)

(* Delete: ErrNotFound for a missing key (Deleter contract, cache.go).      *)
Delete(k) ==
  /\ op' = Op("Delete", k, NoVal, 0, FALSE)
  /\ clk' = clk + 1
  /\ UNCHANGED <<now, expSeen>>
  /\ IF Holds(k)
       THEN /\ slot' = [slot EXCEPT ![Hash[k]] = None]
            /\ reply' = Rep("ok", NoVal, 0, 0)
            /\ met' = Bump(met, "delete", 1)
            /\ cnt' = Bump(cnt, "removed", 1)
       ELSE /\ reply' = Rep("notfound", NoVal, 0, 0)
            /\ UNCHANGED <<slot, met, cnt>>

(* ExpireAll: every entry, also a never-expiring one, gets expiry = now.    *)
ExpireAll ==
  LET n == Cardinality(Used(slot)) IN
  /\ slot' = [h \in Slots |-> IF slot[h] = None THEN None ELSE [slot[h] EXCEPT !.e = now]]
  /\ expSeen' = TRUE
  /\ met' = Bump(met, "expired", n)
  /\ cnt' = Bump(cnt, "touched", n)
  /\ reply' = Rep("ok", NoVal, 0, 0)
  /\ op' = Op("ExpireAll", "", NoVal, 0, FALSE)
  /\ clk' = clk + 1
  /\ UNCHANGED now

DeleteAll ==
  LET n == Cardinality(Used(slot)) IN
  /\ slot' = [h \in Slots |-> None]
  /\ met' = Bump(met, "delete", n)
  /\ cnt' = Bump(cnt, "removed", n)
  /\ reply' = Rep("ok", NoVal, 0, 0)
  /\ op' = Op("DeleteAll", "", NoVal, 0, FALSE)
  /\ clk' = clk + 1
  /\ UNCHANGED <<now, expSeen>>

LenOp ==
  /\ reply' = Rep("n", NoVal, 0, Cardinality(Used(slot)))
  /\ op' = Op("Len", "", NoVal, 0, FALSE)
  /\ clk' = clk + 1
  /\ UNCHANGED <<now, slot, expSeen, met, cnt>>

(* Walk reports every entry; its reply is the count, the entries themselves *)
(* are the state projection that is compared after every step anyway.       *)
Walk ==
  /\ reply' = Rep("n", NoVal, 0, Cardinality(Used(slot)))
  /\ op' = Op("Walk", "", NoVal, 0, FALSE)
  /\ clk' = clk + 1
  /\ UNCHANGED <<now, slot, expSeen, met, cnt>>

(* Relay (C13): the cache is dumped (gob) and the dump restored into a new, *)
(* EMPTY cache of the same family, which replaces it.  Keys, values,         *)
(* expiry times and usage counters must survive unchanged; both calls        *)
(* report the number of entries.  (Restore of entries with an expiry counts  *)
(* as "expiration set" for the UnlimitedTTL scan short-cut.)                 *)
Relay ==
  /\ reply' = Rep("n", NoVal, 0, Cardinality(Used(slot)))
  /\ op' = Op("Relay", "", NoVal, 0, FALSE)
  /\ expSeen' = (\E h \in Slots : slot[h] # None /\ slot[h].e # NoExp)
  /\ clk' = clk + 1
  /\ UNCHANGED <<now, slot, met, cnt>>

(* The dump of the cache is restored into the SAME cache, which is in use: every entry is replaced by a copy of itself  *)
(* (key, value, expiry, usage counter travel with the dump), so nothing observable changes - in particular not the      *)
(* number of entries a later cleanup cycle compares with CountSoftLimit.                                                *)
RelaySelf ==
  /\ reply' = Rep("n", NoVal, 0, Cardinality(Used(slot)))
  /\ op' = Op("RelaySelf", "", NoVal, 0, FALSE)
  /\ expSeen' = (expSeen \/ \E h \in Slots : slot[h] # None /\ slot[h].e # NoExp)
  /\ clk' = clk + 1
  /\ UNCHANGED <<now, slot, met, cnt>>

(* Walk whose callback fails on the first entry: the walk stops, reports    *)
(* the error and zero processed entries.                                    *)
WalkStop ==
  /\ reply' = IF Used(slot) = {} THEN Rep("n", NoVal, 0, 0) ELSE Rep("stopped", NoVal, 0, 0)
  /\ op' = Op("WalkStop", "", NoVal, 0, FALSE)
  /\ clk' = clk + 1
  /\ UNCHANGED <<now, slot, expSeen, met, cnt>>

Tick ==
  /\ now < MaxNow
  /\ now' = now + 1
  /\ reply' = Rep("ok", NoVal, 0, 0)
  /\ op' = Op("Tick", "", NoVal, 0, FALSE)
  /\ clk' = clk + 1
  /\ UNCHANGED <<slot, expSeen, met, cnt>>

---------------------------------------------------------------------------
(* Janitor cycle.                                                          *)

(* The code skips the scan for UnlimitedTTL caches until an expiration has  *)
(* been set; ScanEnabled is that guard.  ShortcutSound (below) states why    *)
(* the skip is harmless.                                                    *)
ScanEnabled == ~Unlimited \/ expSeen

Deletable(en) == en # None /\ en.e # NoExp /\ en.e + DEA <= now

AfterDeleteExpired(s) ==
  IF ScanEnabled THEN [h \in Slots |-> IF Deletable(s[h]) THEN None ELSE s[h]] ELSE s

(* Rank under the configured strategy; the code sorts ascending and removes *)
(* the head.  A never-expiring entry has E = 0 in the code and therefore    *)
(* the lowest rank under "expired".                                         *)
Rank(en) ==
  IF Strategy = "expired" THEN (IF en.e = NoExp THEN -1000 ELSE en.e) ELSE en.c

CeilDiv(a, b) == (a + b - 1) \div b

(* Number of entries to evict, exact arithmetic.                            *)
EvictCount(n, countBreach) ==
  IF countBreach
    THEN LET target == CeilDiv(CountLimit * (FracDen - FracNum), FracDen) IN
         IF n > target THEN n - target ELSE 0
    ELSE (n * FracNum) \div FracDen

(* Any set of the right size whose ranks do not exceed the ranks kept.      *)
EvictChoices(s, n) ==
  {R \in SUBSET Used(s) :
     /\ Cardinality(R) = n
     /\ \A r \in R, q \in Used(s) \ R : Rank(s[r]) <= Rank(s[q])}

Cleanup(needed) ==
  LET s1 == AfterDeleteExpired(slot)
      n1 == Cardinality(Used(s1))
      co == CountLimit > 0 /\ n1 > CountLimit
      trig == co \/ needed \/ ForceEvict
      ex == IF trig THEN EvictCount(n1, co) ELSE 0
      nes == IF FloatSlack /\ trig THEN {x \in {ex - 1, ex, ex + 1} : x >= 0 /\ x <= n1} ELSE {ex}
  IN
  /\ needed => EvictNeeded
  /\ \E ne \in nes : \E R \in EvictChoices(s1, ne) :
        /\ slot' = [h \in Slots |-> IF h \in R THEN None ELSE s1[h]]
        /\ met' = IF trig THEN Bump(met, "evict", ne) ELSE met
        /\ cnt' = Bump(cnt, "evicted", ne)
        /\ reply' = Rep("n", NoVal, 0, ne)
  /\ op' = Op("Cleanup", "", NoVal, 0, needed)
  /\ clk' = clk + 1
  /\ UNCHANGED <<now, expSeen>>

---------------------------------------------------------------------------
Next ==
  \/ \E k \in Keys, v \in Vals, t \in TTLs : Write(k, v, t)
  \/ \E k \in Keys, v \in Vals : Store(k, v)
  \/ \E k \in Keys, s \in BOOLEAN : Read(k, s)
  \/ \E k \in Keys : Load(k)
  \/ \E k \in Keys : Delete(k)
  \/ ExpireAll \/ DeleteAll \/ LenOp \/ Walk \/ WalkStop \/ Tick \/ Relay \/ RelaySelf
  \/ \E b \in BOOLEAN : Cleanup(b)

vars == <<now, slot, expSeen, clk, op, reply, met, cnt>>
Spec == Init /\ [][Next]_vars

View == <<now, slot, expSeen>>
ViewClk == <<now, slot, expSeen, clk>>
Bounded == clk <= MaxOps
CBound == \A h \in Slots : slot[h].c <= 2     \* bound of LFU counters in exhaustive runs

---------------------------------------------------------------------------
(* Abstraction to the reference map and refinement (C07).  Valid for an     *)
(* injective Hash; with collisions the store is a lossy map (C09).          *)
AbsM == [k \in Keys |-> IF Holds(k) THEN [v |-> slot[Hash[k]].v, e |-> slot[Hash[k]].e]
                        ELSE [v |-> "-", e |-> 0]]

TypeOK ==
  /\ now \in 0..MaxNow
  /\ \A h \in Slots : slot[h] = None \/ (slot[h].k \in Keys /\ Hash[slot[h].k] = h /\ slot[h].v \in Vals)

(* C09: an entry only ever sits in the slot of its own key.                 *)
SlotOwnsKey == \A h \in Slots : slot[h] # None => Hash[slot[h].k] = h

(* C11: the UnlimitedTTL short-cut never hides an entry that has an expiry. *)
ShortcutSound == ~ScanEnabled => \A h \in Slots : slot[h] = None \/ slot[h].e = NoExp

(* C18: accounting identities over backend events.                          *)
MetricsOK ==
  /\ met["hit"] + met["miss"] + met["expired"] = cnt["reads"] + cnt["touched"]
  /\ met["write"] = cnt["writes"]
  /\ met["delete"] = cnt["removed"]
  /\ met["evict"] = cnt["evicted"]

(* C13: a relay changes nothing the API can observe.                         *)
RelayExact ==
  [][op'.name \in {"Relay", "RelaySelf"} => slot' = slot /\ reply'.n = Cardinality(Used(slot))]_vars

(* C11 as an action property: a janitor cycle without eviction removes      *)
(* exactly the entries expired for DEA or longer; everything else survives. *)
CleanupExact ==
  [][op'.name = "Cleanup" /\ reply'.n = 0 =>
       \A h \in Slots : slot'[h] = (IF Deletable(slot[h]) THEN None ELSE slot[h])]_vars

(* C12 (i): nothing is evicted without breach or EvictionNeeded.            *)
EvictOnlyOnTrigger ==
  [][op'.name = "Cleanup" /\ reply'.n > 0 =>
       \/ op'.skip   \* EvictionNeeded answered TRUE
       \/ ForceEvict
       \/ (CountLimit > 0 /\ Cardinality(Used(AfterDeleteExpired(slot))) > CountLimit)]_vars

(* C12 (iii): every removed entry ranks no higher than every kept entry.    *)
EvictInOrder ==
  [][op'.name = "Cleanup" =>
       LET s1 == AfterDeleteExpired(slot)
           R  == Used(s1) \ Used(slot')
       IN \A r \in R, q \in Used(slot') : Rank(s1[r]) <= Rank(s1[q])]_vars

(* C12 (ii): after a count breach the cache is at CountLimit*(1-f), within one. *)
EvictAmount ==
  [][op'.name = "Cleanup" =>
       LET n1 == Cardinality(Used(AfterDeleteExpired(slot)))
           n2 == Cardinality(Used(slot'))
       IN IF CountLimit > 0 /\ n1 > CountLimit
            THEN /\ n2 * FracDen <= CountLimit * (FracDen - FracNum) + FracDen
                 /\ n2 * FracDen >= CountLimit * (FracDen - FracNum) - FracDen
            ELSE IF op'.skip \/ ForceEvict
              THEN /\ (n1 - n2) * FracDen <= n1 * FracNum
                   /\ (n1 - n2) * FracDen >= n1 * FracNum - FracDen
              ELSE n2 = n1]_vars
=============================================================================
