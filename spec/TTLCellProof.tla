---------------------------- MODULE TTLCellProof ----------------------------
(***************************************************************************)
(* The TTL cell of a context (context.go, WithTTL with updateExisting):     *)
(* "when existing ttl is updated minimal non-zero value is kept".           *)
(* FoldTTL is the rule used by Failover.tla and by the monitor FoMon (C06); *)
(* TLAPS proves the algebra the monitor relies on: a zero hint changes      *)
(* nothing, the result is one of the two arguments, hints commute (the      *)
(* order in which several parties communicate their TTL does not matter),   *)
(* a hint applied twice is applied once, and a non-zero cell never becomes  *)
(* zero (the repaired D5).                                                  *)
(***************************************************************************)
EXTENDS Integers, TLAPS

FoldTTL(c, t) == IF t # 0 /\ (c = 0 \/ c > t) THEN t ELSE c

THEOREM ZeroHint == \A c \in Int : FoldTTL(c, 0) = c
  BY DEF FoldTTL

THEOREM Selects == \A c, t \in Int : FoldTTL(c, t) \in {c, t}
  BY DEF FoldTTL

THEOREM NeverBackToZero == \A c, t \in Int : c # 0 => FoldTTL(c, t) # 0
  BY DEF FoldTTL

THEOREM Idempotent == \A c, t \in Int : FoldTTL(FoldTTL(c, t), t) = FoldTTL(c, t)
  BY DEF FoldTTL

THEOREM Commutes == \A c, t, u \in Int : FoldTTL(FoldTTL(c, t), u) = FoldTTL(FoldTTL(c, u), t)
  BY DEF FoldTTL

THEOREM MinimalNonZero ==
  \A c, t \in Int : (c # 0 /\ t # 0) => (FoldTTL(c, t) <= c /\ FoldTTL(c, t) <= t)
  BY DEF FoldTTL
=============================================================================
