------------------------------- MODULE Transfer -------------------------------
(***************************************************************************)
(* HTTPTransfer (http.go, gob.go): an importer holds named caches and       *)
(* pulls, per name, the dump of the exporter's cache of the same name.      *)
(*   - name unknown to the exporter (404), types hash different (400),      *)
(*     transport error: nothing is imported for that name, the loop goes on *)
(*   - otherwise the dump is restored into the importer's cache (entries    *)
(*     merge over what it holds); if the body is cut short, the records     *)
(*     that arrived complete are restored (some subset of the exporter's    *)
(*     entries - the dump order is the map iteration order)                 *)
(* Caches are maps key -> value here; fidelity of keys / values / expiry    *)
(* through Dump/Restore is property C13.                                    *)
(***************************************************************************)
EXTENDS Integers, Sequences, FiniteSets, TLC, Json

CONSTANTS ExpNames, ImpNames, Keys, Vals, MaxOps

VARIABLES exp, imp, op, clk, lines

vars == <<exp, imp, op, clk, lines>>

Absent == "-"
Empty == [k \in Keys |-> Absent]
Present(c) == {k \in Keys : c[k] # Absent}

Init ==
  /\ exp = [n \in ExpNames |-> Empty]
  /\ imp = [n \in ImpNames |-> Empty]
  /\ op = [name |-> "Init", n |-> "", k |-> "", v |-> "", mode |-> "", who |-> ""]
  /\ clk = 0
  /\ lines = {}

(* ExportJSONL: one JSON line {name, key, value, expireAt} per entry of the  *)
(* requested cache (all caches when no name is given); an unknown name is    *)
(* answered with 404 and no lines.  `lines` is the set of (name, key, value) *)
(* triples the handler wrote.                                                *)
ExportJSONL(n) ==
  /\ n \in ExpNames \cup {"", "nosuch"}
  /\ lines' = IF n = "nosuch" THEN {<<"404", "", "">>}
              ELSE {<<m, k, exp[m][k]>> : m \in (IF n = "" THEN ExpNames ELSE {n}), k \in Keys} \ 
                   {<<m, k, Absent>> : m \in ExpNames, k \in Keys}
  /\ op' = [name |-> "ExportJSONL", n |-> n, k |-> "", v |-> "", mode |-> "", who |-> ""]
  /\ clk' = clk + 1 /\ UNCHANGED <<exp, imp>>

PutExp(n, k, v) ==
  /\ exp' = [exp EXCEPT ![n][k] = v]
  /\ op' = [name |-> "PutExp", n |-> n, k |-> k, v |-> v, mode |-> "", who |-> ""]
  /\ clk' = clk + 1 /\ UNCHANGED <<imp, lines>>

PutImp(n, k, v) ==
  /\ imp' = [imp EXCEPT ![n][k] = v]
  /\ op' = [name |-> "PutImp", n |-> n, k |-> k, v |-> v, mode |-> "", who |-> ""]
  /\ clk' = clk + 1 /\ UNCHANGED <<exp, lines>>

Merge(dst, src, S) == [k \in Keys |-> IF k \in S THEN src[k] ELSE dst[k]]

(* mode: "ok" | "hash" (importer's types hash differs) | "noname" / "nohash" *)
(* (request reaches the exporter without name / typesHash parameter: 400) |  *)
(* "cut" (body of the  *)
(* response for name `who` is cut short) | "neterr" (transport error for     *)
(* name `who`).                                                              *)
Import(mode, who) ==
  /\ mode \in {"cut", "neterr"} => who \in ImpNames
  /\ mode \in {"ok", "hash", "noname", "nohash"} => who = ""
  /\ \E pick \in [ImpNames -> SUBSET Keys] :
        /\ \A n \in ImpNames :
              IF n \notin ExpNames \/ mode \in {"hash", "noname", "nohash"} \/ (mode = "neterr" /\ n = who)
                THEN pick[n] = {}
                ELSE IF mode = "cut" /\ n = who
                  THEN pick[n] \subseteq Present(exp[n])      \* what arrived complete
                  ELSE pick[n] = Present(exp[n])
        /\ imp' = [n \in ImpNames |-> IF n \in ExpNames THEN Merge(imp[n], exp[n], pick[n]) ELSE imp[n]]
  /\ op' = [name |-> "Import", n |-> "", k |-> "", v |-> "", mode |-> mode, who |-> who]
  /\ clk' = clk + 1 /\ UNCHANGED <<exp, lines>>

Next ==
  \/ \E n \in ExpNames, k \in Keys, v \in Vals : PutExp(n, k, v)
  \/ \E n \in ImpNames, k \in Keys, v \in Vals : PutImp(n, k, v)
  \/ \E m \in {"ok", "hash", "noname", "nohash"} : Import(m, "")
  \/ \E m \in {"cut", "neterr"}, w \in ImpNames : Import(m, w)
  \/ \E n \in ExpNames \cup {"", "nosuch"} : ExportJSONL(n)

Spec == Init /\ [][Next]_vars
View == <<exp, imp>>

(* C14 on the model *)
ImportExact ==
  [][op'.name = "Import" /\ op'.mode = "ok" =>
        \A n \in ImpNames : IF n \in ExpNames
                              THEN \A k \in Keys : imp'[n][k] = (IF exp[n][k] # Absent THEN exp[n][k] ELSE imp[n][k])
                              ELSE imp'[n] = imp[n]]_vars
MismatchImportsNothing == [][op'.name = "Import" /\ op'.mode \in {"hash", "noname", "nohash"} => imp' = imp]_vars
OthersUntouched ==
  [][op'.name = "Import" => \A n \in ImpNames : n \notin ExpNames => imp'[n] = imp[n]]_vars
ImportedWasExported ==
  [][op'.name = "Import" => \A n \in ImpNames, k \in Keys :
        imp'[n][k] # imp[n][k] => n \in ExpNames /\ imp'[n][k] = exp[n][k]]_vars

=============================================================================
