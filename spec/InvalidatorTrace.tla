-------------------------- MODULE InvalidatorTrace --------------------------
(***************************************************************************)
(* MonSkip (C17): judges traces of REALLY concurrent Invalidate calls        *)
(* recorded on the real clock.  Events (timestamps in microseconds since     *)
(* the start of the run, taken by the harness):                              *)
(*   start(c, ts)       just before the call                                 *)
(*   cb(c, i, ts)       callback i entered, called from call c               *)
(*   cbx(c, i, ts)      callback i about to return                            *)
(*   ret(c, r)          call returned "ok" | "already" | "nothing"           *)
(* Only sound conclusions are drawn.  Let A, B be consecutive accepted calls. *)
(* lastRun(A) is read after A took the mutex, so it is >= start(A) and >= the *)
(* stamp the last callback of the run before A took just before returning     *)
(* (the mutex is held across the callbacks).  The check of B happened before  *)
(* B's first callback was entered at ts_B.  Acceptance of B therefore         *)
(* requires  ts_B - max(start(A), lastCbExit before A) >= Skip.               *)
(* (InvalidatorConc.tla is the model these bounds are read from.)             *)
(***************************************************************************)
EXTENDS Integers, Sequences, FiniteSets, TLC, Json

CONSTANTS TraceFile
Trace == ndJsonDeserialize(TraceFile)

VARIABLES l, skip, ncb, startTs, cur, nextCb, inCb, lastAccStart, lastCbx, ran, accepted

vars == <<l, skip, ncb, startTs, cur, nextCb, inCb, lastAccStart, lastCbx, ran, accepted>>

Max2(a, b) == IF a >= b THEN a ELSE b
At(f, k, d) == IF k \in DOMAIN f THEN f[k] ELSE d
Put(f, k, v) == [x \in DOMAIN f \cup {k} |-> IF x = k THEN v ELSE f[x]]
Ev == Trace[l]

Init == l = 1 /\ skip = 0 /\ ncb = 0 /\ startTs = <<>> /\ cur = "" /\ nextCb = 1 /\ inCb = FALSE
        /\ lastAccStart = -1 /\ lastCbx = -1 /\ ran = <<>> /\ accepted = {}

New ==
  /\ Ev.ev = "newtrace"
  /\ skip' = Ev.skip /\ ncb' = Ev.ncb
  /\ startTs' = <<>> /\ cur' = "" /\ nextCb' = 1 /\ inCb' = FALSE /\ lastAccStart' = -1 /\ lastCbx' = -1 /\ ran' = <<>> /\ accepted' = {}

Start == Ev.ev = "start" /\ startTs' = Put(startTs, Ev.c, Ev.ts)
         /\ UNCHANGED <<skip, ncb, cur, nextCb, inCb, lastAccStart, lastCbx, ran, accepted>>

(* A callback is entered: no other call may be inside its callbacks; the     *)
(* callbacks of one call come in order 1..ncb; the first one of a call       *)
(* is at least Skip after the start of the previously accepted call.         *)
CbEnter ==
  /\ Ev.ev = "cb"
  /\ ~inCb
  /\ IF Ev.i = 1
       THEN /\ nextCb = 1                        \* the previous accepted call finished all its callbacks
            /\ Ev.c \notin accepted              \* a call runs its callbacks once
            /\ (lastAccStart >= 0 => Ev.ts - lastAccStart >= skip - 2)   \* 2 us: truncation of both stamps
            /\ cur' = Ev.c
            /\ accepted' = accepted \cup {Ev.c}
            /\ lastAccStart' = Max2(At(startTs, Ev.c, Ev.ts), lastCbx)
       ELSE /\ Ev.c = cur /\ Ev.i = nextCb
            /\ UNCHANGED <<cur, accepted, lastAccStart>>
  /\ inCb' = TRUE
  /\ nextCb' = IF Ev.i = ncb THEN 1 ELSE Ev.i + 1
  /\ UNCHANGED <<skip, ncb, startTs, lastCbx, ran>>

CbExit == Ev.ev = "cbx" /\ inCb /\ inCb' = FALSE /\ lastCbx' = Ev.ts
          /\ UNCHANGED <<skip, ncb, startTs, cur, nextCb, lastAccStart, ran, accepted>>

(* Return: "ok" iff this call ran the callbacks (all of them); a rejected    *)
(* call ran none; "nothing" iff no callbacks are registered.                 *)
Ret ==
  /\ Ev.ev = "ret"
  /\ CASE Ev.r = "ok"      -> Ev.c \in accepted /\ (cur = Ev.c => nextCb = 1 /\ ~inCb) /\ ncb > 0
       [] Ev.r = "already" -> Ev.c \notin accepted /\ ncb > 0
       [] Ev.r = "nothing" -> Ev.c \notin accepted /\ ncb = 0
       [] OTHER -> FALSE
  /\ UNCHANGED <<skip, ncb, startTs, cur, nextCb, inCb, lastAccStart, lastCbx, ran, accepted>>

TraceNext == l <= Len(Trace) /\ l' = l + 1 /\ (New \/ Start \/ CbEnter \/ CbExit \/ Ret)
TraceSpec == Init /\ [][TraceNext]_vars

TraceAccepted ==
  LET d == TLCGet("stats").diameter IN
  IF d - 1 = Len(Trace) THEN TRUE ELSE Print(<<"TRACE_REJECTED_AT_LINE", d>>, FALSE)
=============================================================================
