------------------------------ MODULE Failover ------------------------------
(***************************************************************************)
(* Failover.Get / FailoverOf[V].Get (failover.go, failover_go1.18.go) as    *)
(* one process per call.  The model follows the code statement by           *)
(* statement: one action per access to shared state (key-lock map, lock     *)
(* record, failure cache) and per call-out the library makes into user      *)
(* code (backend Read/Write, builder entry/exit, logger, stats).  Call-outs *)
(* are the points where the Go harness can park a goroutine ("gates"); with *)
(* RunToGate = TRUE a process, once scheduled, keeps running until it       *)
(* reaches the next gate, blocks or finishes - exactly the schedules the    *)
(* steered harness can impose on the real code.                             *)
(*                                                                         *)
(* Time is a tick counter (DESIGN.md 2.3).  Values are unforgeable tokens   *)
(* "k#n" (n-th builder invocation for key k; "k#0" = prepared content),     *)
(* builder errors "E:k#n", injected backend errors "BE:r" / "BE:w".         *)
(*                                                                         *)
(* The model describes the REPAIRED behaviour for the defects D1-D5 of      *)
(* DESIGN.md section 8 (it is the behaviour the properties state).          *)
(***************************************************************************)
EXTENDS Integers, Sequences, FiniteSets, TLC

CONSTANTS
  Procs,        \* set of process ids (strings); each performs one Get
  Keys,         \* set of keys
  KeyOf,        \* [Procs -> Keys]
  Skip,         \* [Procs -> BOOLEAN]   caller context carries SkipRead
  HasCell,      \* [Procs -> BOOLEAN]   caller context carries a TTL cell (WithTTL)
  Cell0,        \* [Procs -> Int]       its initial value (ticks, 0 = default)
  TTLUpd,       \* set of TTL updates the builder may communicate (WithTTL(ctx, t, TRUE)); 0 = none
  SyncUpdate, SyncRead, FailHard,  \* FailoverConfig flags
  MaxStale,     \* MaxStaleness in ticks, 0 = unlimited
  FailTTL,      \* FailedUpdateTTL in ticks, -1 = failure cache disabled
  UpdTTL,       \* UpdateTTL in ticks
  BeTTL,        \* backend default TTL in ticks
  Generic,      \* TRUE = FailoverOf[V]
  LogOn,        \* a Logger is configured (log call-outs exist)
  StatOn,       \* a StatsTracker is configured (stats call-outs exist)
  NoOpBe,       \* the backend is cache.NoOp: reads always miss, writes are dropped
  Mutability,   \* ObserveMutability: count rebuilt values that differ from the previous one (cache_changed)
  InitBeSet,    \* set of [Keys -> entry | None]: prepared backend contents to start from
  InitErrsSet,  \* set of [Keys -> entry | None]: prepared failure cache contents to start from
  MaxFaults,    \* budget of injected backend faults
  MaxFails,     \* budget of failing builder invocations
  MaxNow,       \* bound of the tick counter
  EnvOps,       \* BOOLEAN: external ExpireAll / Delete on the backend allowed
  RunToGate,    \* BOOLEAN: generator discipline (see above)
  Serial        \* BOOLEAN: calls do not overlap - a Get starts only when every earlier one, background build included,
                \* has finished (the sequential specification of the Failover: several Gets, ticks in between)

VARIABLES
  now,
  be,        \* backend: [Keys -> None | [v, e]]
  errs,      \* failure cache: [Keys -> None | [v, e]]
  locks,     \* key-lock map: [Keys -> 0 | lock record id]
  lrec,      \* lock records: [1..N -> [val, err, closed]]
  nlock,     \* lock records allocated so far
  pc,        \* [Procs -> label]
  loc,       \* [Procs -> record of locals]
  res,       \* [Procs -> [done, v, err]]  what Get returned
  building,  \* [Keys -> SUBSET Procs]  processes inside the builder
  nb,        \* [Keys -> Nat]  builder invocations so far
  produced,  \* ghost: [Keys -> set of values returned by successful builder invocations]
  berrs,     \* ghost: [Keys -> set of errors produced by builder invocations]
  stored,    \* ghost: [Keys -> set of values ever stored in the backend under the key]
  writes,    \* ghost: sequence of backend writes [k, v, ttl, kind]
  bsrc,      \* ghost: [Keys -> "init" | "build" | "refresh"] what wrote the current backend entry
  met,       \* metrics [build, failed, refreshed]
  gh,        \* ghost event counters [builds, fails, refreshes]
  faults,    \* injected backend faults so far
  fails,     \* failing builds so far
  running,   \* process that must continue (RunToGate), or "none"
  act        \* last action [p, name, out] (output only)

NoExp == 999
NoVal == ""
None  == [v |-> "-", e |-> 0]

N == Cardinality(Procs)
K(p) == KeyOf[p]

Tok(k, n)  == k \o "#" \o ToString(n)
ETok(k, n) == "E:" \o k \o "#" \o ToString(n)

LocInit == [rd |-> [c |-> "none", v |-> NoVal, e |-> 0],  \* last backend read result
            owner |-> FALSE,      \* this call elected itself owner of the key lock
            lk |-> 0,             \* lock record it holds / waits on
            stale |-> NoVal,      \* stale value captured and refreshed (served during update)
            hasStale |-> FALSE,
            fb |-> NoVal,         \* any expired value seen (fallback on build failure)
            hasFb |-> FALSE,
            cell |-> 0,           \* caller's TTL cell
            bg |-> FALSE,         \* running as background builder (Get has returned)
            bn |-> 0,             \* number of the builder invocation it is in
            bv |-> NoVal,         \* value / error produced by the build
            berr |-> NoVal]

Init ==
  /\ now = 0
  /\ be \in InitBeSet
  /\ errs \in InitErrsSet
  /\ locks = [k \in Keys |-> 0]
  /\ lrec = [i \in 1..N |-> [val |-> NoVal, err |-> NoVal, closed |-> FALSE]]
  /\ nlock = 0
  /\ pc = [p \in Procs |-> "idle"]
  /\ loc = [p \in Procs |-> [LocInit EXCEPT !.cell = Cell0[p]]]
  /\ res = [p \in Procs |-> [done |-> FALSE, v |-> NoVal, err |-> NoVal]]
  /\ building = [k \in Keys |-> {}]
  /\ nb = [k \in Keys |-> 0]
  /\ produced = [k \in Keys |-> {}]
  /\ berrs = [k \in Keys |-> IF errs[k] = None THEN {} ELSE {errs[k].v}]
  /\ stored = [k \in Keys |-> IF be[k] = None THEN {} ELSE {be[k].v}]
  /\ writes = <<>>
  /\ bsrc = [k \in Keys |-> "init"]
  /\ met = [build |-> 0, failed |-> 0, refreshed |-> 0, changed |-> 0]
  /\ gh = [builds |-> 0, fails |-> 0, refreshes |-> 0, changes |-> 0]
  /\ faults = 0
  /\ fails = 0
  /\ running = "none"
  /\ act = [p |-> "", name |-> "Init", out |-> "", arg |-> 0]

---------------------------------------------------------------------------
(* Scheduling                                                              *)

Gates ==
  {"preread", "syncread", "refreshw", "bstart", "bend", "bwrite"}
    \cup (IF LogOn THEN {"waitlog", "refreshlog", "buildlog", "warnlog"} ELSE {})
    \cup (IF StatOn THEN {"refreshstat", "failstat", "buildstat", "changestat"} ELSE {})

(* Labels that do not exist in the code for the current configuration are   *)
(* skipped.                                                                 *)
Skipped(l) ==
  \/ (~LogOn /\ l \in {"waitlog", "refreshlog", "buildlog", "warnlog"})
  \/ (~StatOn /\ l \in {"refreshstat", "failstat", "buildstat", "changestat"})

Succ(l) ==
  CASE l = "waitlog"     -> "wait"
    [] l = "refreshlog"  -> "refreshstat"
    [] l = "refreshstat" -> "refreshw"
    [] l = "buildlog"    -> "bstart"
    [] l = "failstat"    -> "errwrite"
    [] l = "buildstat"   -> "publish"
    [] l = "changestat"  -> "buildstat"
    [] l = "warnlog"     -> "decide"
    [] OTHER             -> l

RECURSIVE Land(_)
Land(l) == IF Skipped(l) THEN Land(Succ(l)) ELSE l

Sched(p) == running \in {"none", p}

Stops(p, l, lr) ==    \* p at label l stops running (gate, blocked, finished)
  \/ l \in Gates \/ l = "done"
  \/ (l = "wait" /\ ~lr[loc[p].lk].closed)

(* Common frame of a process step: p moves to label l.                      *)
StepA(p, name, out, arg, l) ==
  /\ Sched(p)
  /\ pc' = [pc EXCEPT ![p] = Land(l)]
  /\ act' = [p |-> p, name |-> name, out |-> out, arg |-> arg]

Step(p, name, out, l) == StepA(p, name, out, 0, l)

Run(p, lr) == running' = IF RunToGate /\ ~Stops(p, pc'[p], lr) THEN p ELSE "none"

Return(p, v, e) == res' = [res EXCEPT ![p] = [done |-> TRUE, v |-> v, err |-> e]]

UNCH_be    == UNCHANGED <<be, stored, writes, bsrc>>
UNCH_lock  == UNCHANGED <<locks, lrec, nlock>>
UNCH_build == UNCHANGED <<building, nb, produced, berrs, fails>>
UNCH_met   == UNCHANGED <<met, gh>>

---------------------------------------------------------------------------
(* Backend and failure-cache primitives                                    *)

ReadRes(k, skip) ==
  IF skip \/ NoOpBe \/ be[k] = None THEN [c |-> "notfound", v |-> NoVal, e |-> 0]
  ELSE IF be[k].e <= now THEN [c |-> "expired", v |-> be[k].v, e |-> be[k].e]
  ELSE [c |-> "hit", v |-> be[k].v, e |-> 0]

FaultRes == [c |-> "beerr", v |-> "BE:r", e |-> 0]

FreshEnough(r) == r.c = "expired" /\ (MaxStale = 0 \/ now - r.e <= MaxStale - 1)

EntryFor(v, ttl, dflt) ==
  LET eff == IF ttl # 0 THEN ttl ELSE dflt IN
  [v |-> v, e |-> IF eff = 0 THEN NoExp ELSE now + eff]

BeWrite(k, v, ttl, kind) ==
  /\ be' = IF NoOpBe THEN be ELSE [be EXCEPT ![k] = EntryFor(v, ttl, BeTTL)]
  /\ stored' = [stored EXCEPT ![k] = @ \cup {v}]
  /\ writes' = Append(writes, [k |-> k, v |-> v, ttl |-> ttl, kind |-> kind])
  /\ bsrc' = [bsrc EXCEPT ![k] = kind]

FailCached(k, skip) ==
  FailTTL > -1 /\ ~skip /\ errs[k] # None /\ errs[k].e > now

(* WithTTL(ctx, t, TRUE): the smallest non-zero TTL is kept.                 *)
FoldTTL(cell, t) == IF t # 0 /\ (cell = 0 \/ cell > t) THEN t ELSE cell

---------------------------------------------------------------------------
(* The Get state machine                                                   *)

Start(p) ==
  /\ pc[p] = "idle"
  /\ Serial => \A q \in Procs \ {p} : pc[q] \in {"idle", "done"}
  /\ Step(p, "Start", "", IF SyncRead THEN "elect" ELSE "preread")
  /\ Run(p, lrec)
  /\ UNCHANGED <<now, be, errs, stored, writes, bsrc, locks, lrec, nlock, loc, res, building, nb, produced, berrs,
                 fails, met, gh, faults>>

(* Initial check before the critical section (SyncRead off).                *)
PreRead(p, fault) ==
  /\ pc[p] = "preread"
  /\ fault => faults < MaxFaults
  /\ LET r == IF fault THEN FaultRes ELSE ReadRes(K(p), Skip[p]) IN
     /\ loc' = [loc EXCEPT ![p].rd = r]
     /\ IF r.c = "hit"
          THEN Step(p, "PreRead", r.c, "done") /\ Return(p, r.v, NoVal)
          ELSE Step(p, "PreRead", r.c, "elect") /\ UNCHANGED res
  /\ faults' = IF fault THEN faults + 1 ELSE faults
  /\ Run(p, lrec)
  /\ UNCHANGED <<now, be, errs, stored, writes, bsrc, locks, lrec, nlock, building, nb, produced, berrs, fails, met, gh>>

(* Lock the key for update or find the active lock (under Failover.lock).   *)
Elect(p) ==
  /\ pc[p] = "elect"
  /\ IF locks[K(p)] = 0
       THEN /\ nlock' = nlock + 1
            /\ locks' = [locks EXCEPT ![K(p)] = nlock + 1]
            /\ loc' = [loc EXCEPT ![p].owner = TRUE, ![p].lk = nlock + 1]
            /\ Step(p, "Elect", "owner", IF SyncRead THEN "syncread" ELSE "branch")
       ELSE /\ loc' = [loc EXCEPT ![p].owner = FALSE, ![p].lk = locks[K(p)]]
            /\ Step(p, "Elect", "waiter", IF SyncRead THEN "syncread" ELSE "branch")
            /\ UNCHANGED <<nlock, locks>>
  /\ Run(p, lrec)
  /\ UNCHANGED <<now, be, errs, stored, writes, bsrc, lrec, res, building, nb, produced, berrs, fails, met, gh, faults>>

(* Check inside the critical section (SyncRead on).                         *)
SyncReadStep(p, fault) ==
  /\ pc[p] = "syncread"
  /\ fault => faults < MaxFaults
  /\ faults' = IF fault THEN faults + 1 ELSE faults
  /\ LET r == IF fault THEN FaultRes ELSE ReadRes(K(p), Skip[p]) IN
     /\ loc' = [loc EXCEPT ![p].rd = r]
     /\ IF r.c = "hit"
          THEN /\ Return(p, r.v, NoVal)
               /\ IF loc[p].owner
                    THEN /\ lrec' = [lrec EXCEPT ![loc[p].lk].val = r.v]
                         /\ Step(p, "SyncRead", r.c, "release")
                    ELSE /\ Step(p, "SyncRead", r.c, "done") /\ UNCHANGED lrec
          ELSE Step(p, "SyncRead", r.c, "branch") /\ UNCHANGED <<res, lrec>>
  /\ Run(p, lrec')
  /\ UNCHANGED <<now, be, errs, stored, writes, bsrc, locks, nlock, building, nb, produced, berrs, fails, met, gh>>

(* After the read: waiter path or owner path.                               *)
Branch(p) ==
  /\ pc[p] = "branch"
  /\ LET r == loc[p].rd IN
     IF ~loc[p].owner
       THEN \* Waiter: serve an acceptable stale value at once, otherwise wait for the owner.
            /\ UNCHANGED <<loc, lrec>>
            /\ IF FreshEnough(r)
                 THEN Step(p, "Branch", "servestale", "done") /\ Return(p, r.v, NoVal)
                 ELSE IF r.c = "beerr" /\ ~Generic
                   THEN Step(p, "Branch", "beerr", "done") /\ Return(p, NoVal, r.v)
                   ELSE Step(p, "Branch", "wait", "waitlog") /\ UNCHANGED res
       ELSE \* Owner.
            IF FreshEnough(r)
              THEN /\ loc' = [loc EXCEPT ![p].stale = r.v, ![p].hasStale = TRUE, ![p].fb = r.v, ![p].hasFb = TRUE]
                   /\ Step(p, "Branch", "refresh", "refreshlog")
                   /\ UNCHANGED <<res, lrec>>
              ELSE IF r.c = "beerr" /\ ~Generic
                THEN \* Unexpected backend error: published to waiters (repaired D3), returned.
                     /\ lrec' = [lrec EXCEPT ![loc[p].lk].err = r.v]
                     /\ Return(p, NoVal, r.v)
                     /\ Step(p, "Branch", "beerr", "release")
                     /\ UNCHANGED loc
                ELSE /\ loc' = IF r.c = "expired"
                                 THEN [loc EXCEPT ![p].fb = r.v, ![p].hasFb = TRUE]   \* repaired D1/D2
                                 ELSE loc
                     /\ Step(p, "Branch", "build", "failcheck")
                     /\ UNCHANGED <<res, lrec>>
  /\ Run(p, lrec')
  /\ UNCHANGED <<now, be, errs, stored, writes, bsrc, locks, nlock, building, nb, produced, berrs, fails, met, gh, faults>>

WaitLog(p) ==
  /\ pc[p] = "waitlog"
  /\ Step(p, "WaitLog", "", "wait")
  /\ Run(p, lrec)
  /\ UNCHANGED <<now, be, errs, stored, writes, bsrc, locks, lrec, nlock, loc, res, building, nb, produced, berrs,
                 fails, met, gh, faults>>

(* <-keyLock.lock : enabled once the owner has closed the lock record.      *)
Wait(p) ==
  /\ pc[p] = "wait"
  /\ lrec[loc[p].lk].closed
  /\ Return(p, lrec[loc[p].lk].val, lrec[loc[p].lk].err)
  /\ Step(p, "Wake", "", "done")
  /\ Run(p, lrec)
  /\ UNCHANGED <<now, be, errs, stored, writes, bsrc, locks, lrec, nlock, loc, building, nb, produced, berrs,
                 fails, met, gh, faults>>

RefreshLog(p) ==
  /\ pc[p] = "refreshlog"
  /\ Step(p, "RefreshLog", "", "refreshstat")
  /\ Run(p, lrec)
  /\ UNCHANGED <<now, be, errs, stored, writes, bsrc, locks, lrec, nlock, loc, res, building, nb, produced, berrs,
                 fails, met, gh, faults>>

RefreshStat(p) ==
  /\ pc[p] = "refreshstat"
  /\ met' = [met EXCEPT !.refreshed = @ + 1]
  /\ Step(p, "RefreshStat", "", "refreshw")
  /\ Run(p, lrec)
  /\ UNCHANGED <<now, be, errs, stored, writes, bsrc, locks, lrec, nlock, loc, res, building, nb, produced, berrs,
                 fails, gh, faults>>

(* Re-store of the stale value with UpdateTTL through a FRESH TTL cell.     *)
RefreshWrite(p, fault) ==
  /\ pc[p] = "refreshw"
  /\ fault => faults < MaxFaults
  /\ faults' = IF fault THEN faults + 1 ELSE faults
  /\ gh' = [gh EXCEPT !.refreshes = @ + 1]
  /\ IF fault
       THEN /\ lrec' = [lrec EXCEPT ![loc[p].lk].err = "refresh:BE:w"]     \* repaired D3
            /\ Return(p, NoVal, "refresh:BE:w")
            /\ Step(p, "RefreshWrite", "fault", "release")
            /\ UNCH_be
       ELSE /\ BeWrite(K(p), loc[p].stale, UpdTTL, "refresh")
            /\ Step(p, "RefreshWrite", "ok", "failcheck")
            /\ UNCHANGED <<res, lrec>>
  /\ Run(p, lrec')
  /\ UNCHANGED <<now, errs, locks, nlock, loc, building, nb, produced, berrs, fails, met>>

(* recentlyFailed: a cached failure is returned without building.           *)
FailCheck(p) ==
  /\ pc[p] = "failcheck"
  /\ IF FailCached(K(p), Skip[p])
       THEN /\ lrec' = [lrec EXCEPT ![loc[p].lk].err = errs[K(p)].v]
            /\ Return(p, IF Generic THEN loc[p].stale ELSE NoVal, errs[K(p)].v)
            /\ Step(p, "FailCheck", "cached", "release")
       ELSE /\ Step(p, "FailCheck", "none",
                    IF SyncUpdate \/ ~loc[p].hasStale THEN "buildlog" ELSE "spawn")
            /\ UNCHANGED <<res, lrec>>
  /\ Run(p, lrec')
  /\ UNCHANGED <<now, be, errs, stored, writes, bsrc, locks, nlock, loc, building, nb, produced, berrs, fails, met, gh, faults>>

(* Background update: Get returns the stale value, the build continues in   *)
(* its own goroutine under a detached context with its own copy of the key. *)
Spawn(p) ==
  /\ pc[p] = "spawn"
  /\ Return(p, loc[p].stale, NoVal)
  /\ loc' = [loc EXCEPT ![p].bg = TRUE]
  /\ Step(p, "Spawn", "", "buildlog")
  /\ Run(p, lrec)
  /\ UNCHANGED <<now, be, errs, stored, writes, bsrc, locks, lrec, nlock, building, nb, produced, berrs, fails, met, gh, faults>>

BuildLog(p) ==
  /\ pc[p] = "buildlog"
  /\ Step(p, "BuildLog", "", "bstart")
  /\ Run(p, lrec)
  /\ UNCHANGED <<now, be, errs, stored, writes, bsrc, locks, lrec, nlock, loc, res, building, nb, produced, berrs,
                 fails, met, gh, faults>>

(* Builder entry.                                                           *)
BStart(p) ==
  /\ pc[p] = "bstart"
  /\ building' = [building EXCEPT ![K(p)] = @ \cup {p}]
  /\ nb' = [nb EXCEPT ![K(p)] = @ + 1]
  /\ gh' = [gh EXCEPT !.builds = @ + 1]
  /\ loc' = [loc EXCEPT ![p].bn = nb[K(p)] + 1]
  /\ Step(p, "BStart", Tok(K(p), nb[K(p)] + 1), "bend")
  /\ Run(p, lrec)
  /\ UNCHANGED <<now, be, errs, stored, writes, bsrc, locks, lrec, nlock, res, produced, berrs, fails, met, faults>>

(* Builder exit with outcome ok / fail and an optional TTL hint.  With      *)
(* `same` the builder returns the value it is replacing (nothing changed at *)
(* the source), which is what ObserveMutability is about.                   *)
BEnd(p, ok, t, same) ==
  /\ pc[p] = "bend"
  /\ same => (ok /\ Mutability /\ loc[p].hasStale)
  /\ ~ok => fails < MaxFails
  /\ fails' = IF ok THEN fails ELSE fails + 1
  /\ building' = [building EXCEPT ![K(p)] = @ \ {p}]
  /\ LET n == loc[p].bn
         c == IF HasCell[p] THEN FoldTTL(loc[p].cell, t) ELSE loc[p].cell IN
     IF ok
       THEN LET v == IF same THEN loc[p].stale ELSE Tok(K(p), n) IN
            /\ produced' = [produced EXCEPT ![K(p)] = @ \cup {v}]
            /\ loc' = [loc EXCEPT ![p].bv = v, ![p].berr = NoVal, ![p].cell = c]
            /\ StepA(p, "BEnd", IF same THEN "same" ELSE "ok", t, "bwrite")
            /\ UNCHANGED <<berrs, gh>>
       ELSE /\ berrs' = [berrs EXCEPT ![K(p)] = @ \cup {ETok(K(p), n)}]
            /\ loc' = [loc EXCEPT ![p].bv = NoVal, ![p].berr = ETok(K(p), n), ![p].cell = c]
            /\ gh' = [gh EXCEPT !.fails = @ + 1]
            /\ StepA(p, "BEnd", "fail", t, "failstat")
            /\ UNCHANGED produced
  /\ Run(p, lrec)
  /\ UNCHANGED <<now, be, errs, stored, writes, bsrc, locks, lrec, nlock, res, nb, met, faults>>

FailStat(p) ==
  /\ pc[p] = "failstat"
  /\ met' = [met EXCEPT !.failed = @ + 1]
  /\ Step(p, "FailStat", "", "errwrite")
  /\ Run(p, lrec)
  /\ UNCHANGED <<now, be, errs, stored, writes, bsrc, locks, lrec, nlock, loc, res, building, nb, produced, berrs,
                 fails, gh, faults>>

(* The failure is cached with FailedUpdateTTL (repaired D13: not with the   *)
(* caller's value TTL).                                                     *)
ErrWrite(p) ==
  /\ pc[p] = "errwrite"
  /\ errs' = IF FailTTL > -1 THEN [errs EXCEPT ![K(p)] = EntryFor(loc[p].berr, 0, FailTTL)] ELSE errs
  /\ Step(p, "ErrWrite", "", "buildstat")
  /\ Run(p, lrec)
  /\ UNCHANGED <<now, be, stored, writes, bsrc, locks, lrec, nlock, loc, res, building, nb, produced, berrs,
                 fails, met, gh, faults>>

(* ObserveMutability: Failover compares with the stale value it refreshed   *)
(* (none: no comparison); FailoverOf compares with that value or, without   *)
(* one, with the zero value - so a cold build always counts as a change     *)
(* there (as coded).  Without a StatsTracker nothing is counted (repaired   *)
(* D15: the code dereferenced the nil tracker).                             *)
Changed(p) ==
  /\ Mutability
  /\ Generic \/ loc[p].hasStale
  /\ loc[p].bv # (IF loc[p].hasStale THEN loc[p].stale ELSE NoVal)

(* Final store of the built value with the TTL of the caller's cell.        *)
BuildWrite(p, fault) ==
  /\ pc[p] = "bwrite"
  /\ fault => faults < MaxFaults
  /\ faults' = IF fault THEN faults + 1 ELSE faults
  /\ IF fault
       THEN /\ loc' = [loc EXCEPT ![p].bv = NoVal, ![p].berr = "BE:w"]
            /\ Step(p, "BuildWrite", "fault", "buildstat")
            /\ UNCH_be
       ELSE /\ BeWrite(K(p), loc[p].bv, IF HasCell[p] THEN loc[p].cell ELSE 0, "build")
            /\ Step(p, "BuildWrite", "ok", IF Changed(p) THEN "changestat" ELSE "buildstat")
            /\ UNCHANGED loc
  /\ Run(p, lrec)
  /\ UNCHANGED <<now, errs, locks, lrec, nlock, res, building, nb, produced, berrs, fails, met, gh>>

ChangeStat(p) ==
  /\ pc[p] = "changestat"
  /\ met' = [met EXCEPT !.changed = @ + 1]
  /\ Step(p, "ChangeStat", "", "buildstat")
  /\ Run(p, lrec)
  /\ UNCHANGED <<now, be, errs, stored, writes, bsrc, locks, lrec, nlock, loc, res, building, nb, produced, berrs,
                 fails, gh, faults>>

BuildStat(p) ==
  /\ pc[p] = "buildstat"
  /\ met' = [met EXCEPT !.build = @ + 1]
  /\ Step(p, "BuildStat", "", "publish")
  /\ Run(p, lrec)
  /\ UNCHANGED <<now, be, errs, stored, writes, bsrc, locks, lrec, nlock, loc, res, building, nb, produced, berrs,
                 fails, gh, faults>>

(* keyLock.val, keyLock.err = doBuild(...)                                  *)
Publish(p) ==
  /\ pc[p] = "publish"
  /\ lrec' = [lrec EXCEPT ![loc[p].lk].val = loc[p].bv, ![loc[p].lk].err = loc[p].berr]
  /\ Step(p, "Publish", "", IF loc[p].berr # NoVal THEN "warnlog" ELSE "decide")
  /\ Run(p, lrec')
  /\ UNCHANGED <<now, be, errs, stored, writes, bsrc, locks, nlock, loc, res, building, nb, produced, berrs, fails,
                 met, gh, faults>>

WarnLog(p) ==
  /\ pc[p] = "warnlog"
  /\ Step(p, "WarnLog", "", "decide")
  /\ Run(p, lrec)
  /\ UNCHANGED <<now, be, errs, stored, writes, bsrc, locks, lrec, nlock, loc, res, building, nb, produced, berrs,
                 fails, met, gh, faults>>

(* What the synchronous builder returns: the built value; on failure the    *)
(* previously cached value unless FailHard or none exists, else the error.  *)
Decide(p) ==
  /\ pc[p] = "decide"
  /\ IF loc[p].bg
       THEN UNCHANGED res
       ELSE IF loc[p].berr = NoVal
         THEN Return(p, loc[p].bv, NoVal)
         ELSE IF ~FailHard /\ loc[p].hasFb
           THEN Return(p, loc[p].fb, NoVal)
           ELSE Return(p, NoVal, loc[p].berr)
  /\ Step(p, "Decide", "", "release")
  /\ Run(p, lrec)
  /\ UNCHANGED <<now, be, errs, stored, writes, bsrc, locks, lrec, nlock, loc, building, nb, produced, berrs, fails,
                 met, gh, faults>>

(* delete(keyLocks, key); close(keyLock.lock)  (under Failover.lock)        *)
Release(p) ==
  /\ pc[p] = "release"
  /\ locks' = [locks EXCEPT ![K(p)] = 0]
  /\ lrec' = [lrec EXCEPT ![loc[p].lk].closed = TRUE]
  /\ Step(p, "Release", "", "done")
  /\ Run(p, lrec')
  /\ UNCHANGED <<now, be, errs, stored, writes, bsrc, nlock, loc, res, building, nb, produced, berrs, fails, met, gh, faults>>

---------------------------------------------------------------------------
(* Environment                                                             *)

EnvFrame == /\ running = "none"
            /\ UNCHANGED <<errs, locks, lrec, nlock, pc, loc, res, building, nb, produced, berrs, fails, met, gh,
                           faults, running>>

Tick ==
  /\ EnvFrame /\ now < MaxNow
  /\ now' = now + 1
  /\ act' = [p |-> "", name |-> "Tick", out |-> "", arg |-> 0]
  /\ UNCH_be

ExtExpireAll ==
  /\ EnvFrame /\ EnvOps
  /\ be' = [k \in Keys |-> IF be[k] = None THEN None ELSE [be[k] EXCEPT !.e = now]]
  /\ act' = [p |-> "", name |-> "ExtExpireAll", out |-> "", arg |-> 0]
  /\ UNCHANGED <<now, stored, writes, bsrc>>

(* Another writer (a second frontend on the same backend, a direct Write)   *)
(* stores a fresh value under the key.                                      *)
ExtWrite(k) ==
  /\ EnvFrame /\ EnvOps
  /\ Len(writes) < 6
  /\ LET v == k \o "#x" \o ToString(Len(writes) + 1) IN
     /\ BeWrite(k, v, 0, "ext")
     /\ act' = [p |-> "", name |-> "ExtWrite", out |-> v, arg |-> 0]
  /\ UNCHANGED now

ExtDelete(k) ==
  /\ EnvFrame /\ EnvOps /\ be[k] # None
  /\ be' = [be EXCEPT ![k] = None]
  /\ act' = [p |-> "", name |-> "ExtDelete", out |-> k, arg |-> 0]
  /\ UNCHANGED <<now, stored, writes, bsrc>>

---------------------------------------------------------------------------
ProcNext(p) ==
  \/ Start(p) \/ Elect(p) \/ Branch(p) \/ WaitLog(p) \/ Wait(p) \/ RefreshLog(p) \/ RefreshStat(p)
  \/ FailCheck(p) \/ Spawn(p) \/ BuildLog(p) \/ BStart(p) \/ FailStat(p) \/ ErrWrite(p) \/ BuildStat(p) \/ ChangeStat(p)
  \/ Publish(p) \/ WarnLog(p) \/ Decide(p) \/ Release(p)
  \/ \E f \in BOOLEAN : PreRead(p, f) \/ SyncReadStep(p, f) \/ RefreshWrite(p, f) \/ BuildWrite(p, f)
  \/ \E ok \in BOOLEAN, t \in TTLUpd, same \in BOOLEAN : BEnd(p, ok, t, same)

Next ==
  \/ \E p \in Procs : ProcNext(p) /\ UNCHANGED now
  \/ Tick \/ ExtExpireAll \/ \E k \in Keys : ExtDelete(k) \/ ExtWrite(k)

vars == <<now, be, errs, locks, lrec, nlock, pc, loc, res, building, nb, produced, berrs, stored, writes, bsrc, met, gh,
          faults, fails, running, act>>

Spec == Init /\ [][Next]_vars

(* Weak fairness of every process step: a Get that can move, moves; a       *)
(* builder that was entered, returns.                                       *)
FairSpec == Spec /\ \A p \in Procs : WF_vars(ProcNext(p) /\ UNCHANGED now)

View == <<now, be, errs, locks, lrec, nlock, pc, loc, res, building, nb, faults, fails, running>>

---------------------------------------------------------------------------
(* Properties                                                              *)

AllDone == \A p \in Procs : pc[p] = "done"
Quiet   == \A p \in Procs : pc[p] \in {"idle", "done"}

TypeOK ==
  /\ \A k \in Keys : locks[k] \in 0..N
  /\ nlock \in 0..N
  /\ \A p \in Procs : loc[p].lk \in 0..N

(* C01: at most one build per key in flight.                                *)
OneBuildPerKey == \A k \in Keys : Cardinality(building[k]) <= 1

(* C02: provenance of results.                                              *)
BackendErrs == {"BE:r", "BE:w", "refresh:BE:w"}
Provenance ==
  \A p \in Procs : res[p].done =>
     IF res[p].err = NoVal
       THEN res[p].v \in produced[K(p)] \cup stored[K(p)]
       ELSE res[p].err \in berrs[K(p)] \cup BackendErrs

(* C04 (safety part): when nobody is inside Get or a background build, no   *)
(* key lock remains and nobody waits on an open lock record.                *)
LocksReleased == Quiet => \A k \in Keys : locks[k] = 0
LockHasOwner ==
  \A k \in Keys : locks[k] # 0 =>
     \E p \in Procs : loc[p].owner /\ loc[p].lk = locks[k] /\ K(p) = k /\ pc[p] \notin {"idle", "done", "elect", "preread"}
WaiterHasOwner ==
  \A q \in Procs : pc[q] \in {"waitlog", "wait"} /\ ~lrec[loc[q].lk].closed =>
     \E p \in Procs : loc[p].owner /\ loc[p].lk = loc[q].lk /\ pc[p] # "done"

(* C04 (liveness, checked under FairSpec without state constraint).         *)
Termination == <>[]AllDone

(* C05: with SyncRead no build starts while a fresh built value is stored.  *)
(* "A build has succeeded and its result stays fresh": the backend entry was  *)
(* written by a final store (not by the UpdateTTL re-store of a stale copy). *)
FreshBuilt(k) == be[k] # None /\ be[k].e > now /\ bsrc[k] = "build"
EconomySyncRead ==
  [][\A p \in Procs : SyncRead /\ ~Skip[p] /\ loc[p].rd.c # "beerr" /\ pc[p] = "bstart" /\ pc'[p] = "bend"
         => ~FreshBuilt(K(p))]_vars    \* (a failed backend read tells the caller nothing: FailoverOf then builds)
(* C05: no build starts while a failure is cached for the key (unless SkipRead). *)
EconomyFailCache ==
  [][\A p \in Procs : pc[p] = "failcheck" /\ pc'[p] \notin {"failcheck", "release"} => ~FailCached(K(p), Skip[p])]_vars

(* C06: the re-store of a stale value uses UpdateTTL, the final store the   *)
(* caller's cell (folded with the builder's hints), never UpdateTTL.        *)
WritesTTL ==
  \A i \in DOMAIN writes :
     IF writes[i].kind = "refresh" THEN writes[i].ttl = UpdTTL ELSE TRUE
FinalWriteTTL ==
  [][\A p \in Procs : pc[p] = "bwrite" /\ pc'[p] # "bwrite" /\ Len(writes') > Len(writes) =>
        writes'[Len(writes')].ttl = (IF HasCell[p] THEN loc[p].cell ELSE 0)]_vars
(* SkipRead forces a rebuild whose result is still stored: a Get with SkipRead that ran alone and succeeded returns a   *)
(* value a builder produced (never the cached one) and the backend holds it (unless it is cache.NoOp or was changed     *)
(* from outside).                                                                                                       *)
SkipReadBuilds ==
  \A p \in Procs : (Cardinality(Procs) = 1 /\ Skip[p] /\ res[p].done /\ res[p].err = NoVal) =>
        /\ res[p].v \in produced[K(p)]
        /\ (~NoOpBe /\ ~EnvOps /\ pc[p] = "done") => (be[K(p)] # None /\ be[K(p)].v = res[p].v)

(* C18: metrics equal event counts once quiet (and at every state).         *)
MetricsOK ==
  StatOn => /\ met.build <= gh.builds /\ met.failed <= gh.fails /\ met.refreshed >= gh.refreshes
            /\ Quiet => (met.build = gh.builds /\ met.failed = gh.fails /\ met.refreshed = gh.refreshes)
=============================================================================
