------------------------------ MODULE BulkClean ------------------------------
(***************************************************************************)
(* C11 at scale: one line per run of the harness, which fills a backend with *)
(* tens of thousands of entries of four classes (written under an exact      *)
(* virtual clock) and then runs ONE cleanup cycle:                           *)
(*   never   no expiry                                                       *)
(*   fresh   expires in the future                                           *)
(*   recent  expired, but for less than DeleteExpiredAfter                   *)
(*   old     expired for longer than DeleteExpiredAfter                      *)
(* CleanupExact of Store.tla, stated per class: the cycle removes exactly the *)
(* old entries - all of them, however many sit in one shard - and nothing     *)
(* else; Len agrees.  While the cycle runs another goroutine stores fresh     *)
(* keys of its own (written_during): none of them may be lost (lost_writes).  *)
(***************************************************************************)
EXTENDS Integers, Sequences, TLC, Json

CONSTANT TraceFile
Trace == ndJsonDeserialize(TraceFile)
VARIABLE l

RunOK(e) ==
  /\ e.before = e.never + e.fresh + e.recent + e.old      \* everything written is there before the cycle
  /\ e.left_never = e.never
  /\ e.left_fresh = e.fresh
  /\ e.left_recent = e.recent
  /\ e.left_old = 0
  /\ e.len_after = e.never + e.fresh + e.recent
  /\ e.lost_writes = 0          \* a Write that returned while the cycle was running is readable afterwards

Init == l = 1
Next == l <= Len(Trace) /\ (IF "ev" \in DOMAIN Trace[l] THEN TRUE ELSE RunOK(Trace[l])) /\ l' = l + 1   \* "ev" lines separate runs
TraceSpec == Init /\ [][Next]_l

TraceAccepted ==
  LET d == TLCGet("stats").diameter IN
  IF d - 1 = Len(Trace) THEN TRUE ELSE Print(<<"TRACE_REJECTED_AT_LINE", d>>, FALSE)
=============================================================================
