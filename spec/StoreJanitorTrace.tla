-------------------------- MODULE StoreJanitorTrace --------------------------
(***************************************************************************)
(* Trace validation for a backend whose REAL janitor goroutine is running   *)
(* (DeleteExpiredJobInterval of a few milliseconds, real clock): the timer   *)
(* fires at moments the recorder cannot log, so a janitor cycle is a SILENT  *)
(* step that may happen before any recorded operation (at most one per       *)
(* consumed line).  A recorded "Cleanup" line means: the recorder waited     *)
(* until at least one complete cycle had run after the previous operation,   *)
(* so there the cycle is mandatory and its effect is checked exactly.        *)
(* This binds the verif hook VerifCleanup() (used everywhere else) to the    *)
(* loop the library really runs.                                            *)
(***************************************************************************)
EXTENDS StoreTrace

CONSTANT DevJ   \* TRUE only to CLASSIFY a rejected SyncMap trace: the named deviation below is allowed

VARIABLES silentOK,   \* a silent cycle is still allowed in the current gap
          chk,        \* line whose observed contents still have to be matched (0 = none)
          late        \* keys whose long-expired entry was overwritten by a Write (a running cycle may have seen it)

JVars == <<vars, l, silentOK, chk, late>>

JInit == TraceInit /\ silentOK = TRUE /\ chk = 0 /\ late = {} /\ TLCSet(1, 1)

(* The operation of the next line happens; the recorder looks at the contents a moment LATER, and the janitor may have    *)
(* worked in between, so the contents are matched by a separate step (JVerify) that a silent cycle may precede.          *)
JOp ==
  /\ chk = 0 /\ TraceOpNoState /\ chk' = l /\ silentOK' = TRUE
  /\ late' = IF Ev.op.name = "Write" /\ Holds(Ev.op.k) /\ Deletable(slot[Hash[Ev.op.k]]) THEN late \cup {Ev.op.k}
              ELSE IF Ev.op.name = "ExpireAll"          \* renews the expiry of every entry in place, long-expired ones too
                THEN late \cup {slot[h].k : h \in {x \in Slots : Deletable(slot[x])}}
              ELSE late

(* At a recorded Cleanup line the cache_items gauge (reported by its own goroutine, read after two reports) equals the   *)
(* number of entries.                                                                                                    *)
JVerify ==
  /\ chk # 0
  /\ StateProj = SetOf(Trace[chk].st)
  /\ (Trace[chk].op.name = "Cleanup" => Trace[chk].met.items = Cardinality(Used(slot)))
  /\ chk' = 0 /\ silentOK' = TRUE
  /\ UNCHANGED <<vars, l, late>>

JReset == chk = 0 /\ TraceReset /\ silentOK' = TRUE /\ chk' = 0 /\ late' = {}

(* The timer fired.  The recorder may look at the cache while a cycle is still working through the shards, so a silent   *)
(* step removes ANY SUBSET of the entries the cycle is entitled to remove - never anything else.                         *)
JSilent ==
  /\ silentOK /\ l <= Len(Trace) + 1
  /\ ScanEnabled
  /\ \E S \in SUBSET {h \in Slots : Deletable(slot[h])} :
        /\ S # {}
        /\ slot' = [h \in Slots |-> IF h \in S THEN None ELSE slot[h]]
  /\ silentOK' = FALSE
  /\ UNCHANGED <<now, expSeen, clk, op, reply, met, cnt, l, chk, late>>

(* Named deviation of SyncMap (known finding KF-C08-1 / KF-C11-1, defect D14): its janitor checks an entry and then      *)
(* deletes BY KEY, so the entry a Write stored over a long-expired one while the cycle was running can be removed,       *)
(* whatever its expiry; likewise an entry whose expiry an ExpireAll renewed in place.  Enabled only when a rejected      *)
(* trace is re-judged for classification.                                                                               *)
JLate ==
  /\ DevJ /\ l <= Len(Trace) + 1
  /\ \E k \in late :
        /\ Holds(k)
        /\ slot' = [slot EXCEPT ![Hash[k]] = None]
        /\ late' = late \ {k}
  /\ UNCHANGED <<now, expSeen, clk, op, reply, met, cnt, l, chk, silentOK>>

JNext == JOp \/ JVerify \/ JReset \/ JSilent \/ JLate
JSpec == JInit /\ [][JNext]_JVars

HighWater == TLCSet(1, IF l > TLCGet(1) THEN l ELSE TLCGet(1))
NotDone == ~(l = Len(Trace) + 1 /\ chk = 0)
JAccepted ==
  IF TLCGet(1) = Len(Trace) + 1 /\ FALSE THEN TRUE ELSE Print(<<"TRACE_REJECTED_AT_LINE", TLCGet(1)>>, FALSE)
=============================================================================
