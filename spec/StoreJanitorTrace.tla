-------------------------- MODULE StoreJanitorTrace --------------------------
(***************************************************************************)
(* Trace validation for a backend whose REAL janitor goroutine is running   *)
(* (DeleteExpiredJobInterval of a few milliseconds, real clock): the timer   *)
(* fires at moments the recorder cannot log, so a janitor cycle is a SILENT  *)
(* step that may happen before any recorded operation (at most one per       *)
(* consumed line).  A recorded "Cleanup" line means: the recorder waited     *)
(* until at least one complete cycle had run after the previous operation,   *)
(* so there the cycle is mandatory and its effect is checked exactly.        *)
(* This binds the verif hook VerifCleanup() (used everywhere else) to the    *)
(* loop the library really runs.                                            *)
(***************************************************************************)
EXTENDS StoreTrace

VARIABLE silentOK      \* a silent cycle is still allowed before the next line

JVars == <<vars, l, silentOK>>

JInit == TraceInit /\ silentOK = TRUE /\ TLCSet(1, 1)

JOp == TraceOp /\ silentOK' = TRUE
JReset == TraceReset /\ silentOK' = TRUE

(* The timer fired.  The recorder may look at the cache while a cycle is     *)
(* still working through the shards, so a silent step removes ANY SUBSET of  *)
(* the entries the cycle is entitled to remove - never anything else.        *)
JSilent ==
  /\ silentOK /\ l <= Len(Trace)
  /\ ScanEnabled
  /\ \E S \in SUBSET {h \in Slots : Deletable(slot[h])} :
        /\ S # {}
        /\ slot' = [h \in Slots |-> IF h \in S THEN None ELSE slot[h]]
  /\ silentOK' = FALSE
  /\ UNCHANGED <<now, expSeen, clk, op, reply, met, cnt, l>>

JNext == JOp \/ JReset \/ JSilent
JSpec == JInit /\ [][JNext]_JVars

HighWater == TLCSet(1, IF l > TLCGet(1) THEN l ELSE TLCGet(1))
NotDone == l <= Len(Trace)
JAccepted ==
  IF TLCGet(1) = Len(Trace) + 1 THEN TRUE ELSE Print(<<"TRACE_REJECTED_AT_LINE", TLCGet(1)>>, FALSE)
=============================================================================
