--------------------------- MODULE InvalidatorConc ---------------------------
(***************************************************************************)
(* Invalidator (invalidator.go) with callers that overlap in time and       *)
(* callbacks that take time.  Invalidate is decomposed as in the code:       *)
(*   Arrive   - the call starts: no callbacks registered -> "nothing";       *)
(*              otherwise it queues for the mutex                            *)
(*   Acquire  - mutex taken: the flood check compares the clock AT THIS      *)
(*              MOMENT with lastRun; reject -> "already" (mutex released);    *)
(*              accept -> lastRun := now, first callback starts              *)
(*   CbDone   - a callback returns after its duration; the next one starts,  *)
(*              or the mutex is released and the call returns nil            *)
(* Time is discrete (units).  Steps that take no time are urgent: the clock   *)
(* advances only when no call can acquire the mutex and no callback is due    *)
(* (this is what virtual time in the harness does).  Which waiting call gets  *)
(* the mutex is not observable (calls are symmetric), durations are therefore *)
(* a function of the ordinal of the accepted run, not of the caller.          *)
(***************************************************************************)
EXTENDS Integers, Sequences, FiniteSets, TLC, Json

CONSTANTS
  Skip,      \* SkipInterval in units
  NCb,       \* number of registered callbacks
  Procs,     \* calls
  Durs,      \* possible callback durations (units, 0 = returns at once)
  Steps,     \* possible clock advances
  MaxT

VARIABLES t, lastRun, holder, pc, cbi, cbEnd, log, res, runs, starts, hist, done

mvars == <<t, lastRun, holder, pc, cbi, cbEnd, log, res, runs, starts>>
vars == <<mvars, hist, done>>

Never == -100000

Init ==
  /\ t = 0 /\ lastRun = Never /\ holder = "none"
  /\ pc = [p \in Procs |-> "idle"]
  /\ cbi = 0 /\ cbEnd = 0
  /\ log = <<>>          \* <<run ordinal, callback index, start time>>
  /\ res = [p \in Procs |-> ""]
  /\ runs = 0            \* accepted runs so far
  /\ starts = <<>>       \* start times of the accepted runs
  /\ hist = <<>> /\ done = FALSE

Waiting == {p \in Procs : pc[p] = "waiting"}
CanAcquire == holder = "none" /\ Waiting # {}
CbDue == holder # "none" /\ t = cbEnd
Urgent == CanAcquire \/ CbDue

Arrive(p) ==
  /\ ~Urgent
  /\ pc[p] = "idle"
  /\ IF NCb = 0
       THEN pc' = [pc EXCEPT ![p] = "done"] /\ res' = [res EXCEPT ![p] = "nothing"]
       ELSE pc' = [pc EXCEPT ![p] = "waiting"] /\ res' = res
  /\ UNCHANGED <<t, lastRun, holder, cbi, cbEnd, log, runs, starts>>

(* calls are symmetric: any waiting call; one duration per callback of the run *)
Acquire(p, d) ==
  /\ CanAcquire /\ ~CbDue
  /\ pc[p] = "waiting"
  /\ IF lastRun = Never \/ t - lastRun >= Skip
       THEN /\ lastRun' = t
            /\ holder' = p
            /\ pc' = [pc EXCEPT ![p] = "running"]
            /\ runs' = runs + 1
            /\ starts' = Append(starts, t)
            /\ cbi' = 1 /\ cbEnd' = t + d
            /\ log' = Append(log, <<runs + 1, 1, t>>)
            /\ res' = res
       ELSE /\ pc' = [pc EXCEPT ![p] = "done"]
            /\ res' = [res EXCEPT ![p] = "already"]
            /\ UNCHANGED <<lastRun, holder, runs, starts, cbi, cbEnd, log>>
  /\ UNCHANGED t

CbDone(d) ==
  /\ CbDue
  /\ IF cbi < NCb
       THEN /\ cbi' = cbi + 1 /\ cbEnd' = t + d
            /\ log' = Append(log, <<runs, cbi + 1, t>>)
            /\ UNCHANGED <<holder, pc, res>>
       ELSE /\ holder' = "none"
            /\ pc' = [pc EXCEPT ![holder] = "done"]
            /\ res' = [res EXCEPT ![holder] = "ok"]
            /\ UNCHANGED <<cbi, cbEnd, log>>
  /\ UNCHANGED <<t, lastRun, runs, starts>>

Advance(d) ==
  /\ ~Urgent
  /\ d > 0 /\ t + d <= MaxT
  /\ holder # "none" => t + d <= cbEnd
  /\ t' = t + d
  /\ UNCHANGED <<lastRun, holder, pc, cbi, cbEnd, log, res, runs, starts>>

AdvSteps == Steps \cup (IF holder # "none" /\ cbEnd > t THEN {cbEnd - t} ELSE {})

MNext ==
  \/ \E p \in Procs : Arrive(p)
  \/ \E p \in Procs, d \in Durs : Acquire(p, d)
  \/ \E d \in Durs : CbDone(d)
  \/ \E d \in AdvSteps : Advance(d)

Spec == Init /\ [][MNext /\ UNCHANGED <<hist, done>>]_vars

View == mvars

---------------------------------------------------------------------------
(* C17 on the model *)
NoOverlap == Cardinality({p \in Procs : pc[p] = "running"}) <= 1 /\ (holder # "none" <=> \E p \in Procs : pc[p] = "running")
Spaced == \A i \in 1..(Len(starts) - 1) : starts[i + 1] - starts[i] >= Skip
(* every accepted run runs every callback once, in order, one at a time *)
RunAllInOrder ==
  \A i \in DOMAIN log :
     /\ log[i][2] = IF i = 1 \/ log[i - 1][1] # log[i][1] THEN 1 ELSE log[i - 1][2] + 1
     /\ (i > 1 /\ log[i - 1][1] # log[i][1]) => (log[i][1] = log[i - 1][1] + 1 /\ log[i - 1][2] = NCb)
RejectedRunNothing ==
  [][\A p \in Procs : res'[p] \in {"already", "nothing"} /\ res[p] = "" => log' = log /\ runs' = runs]_vars
OkMeansRan ==
  [][\A p \in Procs : res'[p] = "ok" /\ res[p] = "" => (cbi = NCb /\ holder = p)]_vars

---------------------------------------------------------------------------
(* generator: Arrive / Advance are the steps the harness performs; `stable`  *)
(* says whether the state after the step can be compared (no urgent step      *)
(* pending).                                                                  *)
Count(r) == Cardinality({p \in Procs : res[p] = r})
Obs == [t |-> t, ok |-> Count("ok"), already |-> Count("already"), nothing |-> Count("nothing"),
        runs |-> runs, log |-> log, busy |-> holder # "none"]

GenStep ==
  /\ MNext
  /\ LET kind == IF t' # t THEN "Adv"
                 ELSE IF \E p \in Procs : pc[p] = "idle" /\ pc'[p] # "idle" THEN "Arrive" ELSE "Int"
         who == IF kind = "Arrive" THEN CHOOSE p \in Procs : pc[p] = "idle" /\ pc'[p] # "idle" ELSE ""
         dur == IF cbEnd' # cbEnd \/ Len(log') # Len(log) THEN cbEnd' - t' ELSE -1 IN
     hist' = Append(hist, [op |-> kind, p |-> who, d |-> t' - t, dur |-> dur, stable |-> ~Urgent', obs |-> Obs'])
  /\ UNCHANGED done

AllDone == \A p \in Procs : pc[p] = "done"
Finish == AllDone /\ ~done /\ done' = TRUE /\ UNCHANGED <<mvars, hist>>
GenSpec == Init /\ [][GenStep \/ Finish]_vars
Emit == done => PrintT("TRACE " \o ToJson(hist))
=============================================================================
