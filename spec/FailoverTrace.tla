---------------------------- MODULE FailoverTrace ----------------------------
(***************************************************************************)
(* Code -> model for the Failover at sub-gate grain: an event trace of a     *)
(* FREE-RUNNING, really concurrent execution (real scheduler) is accepted     *)
(* iff it is a behaviour of Failover.tla.                                     *)
(*                                                                         *)
(* Logged (one line each, in the order the recorder saw them):               *)
(*   call(p)            Get entered                       -> Start(p)        *)
(*   beRead(p,c,v)      backend read finished             -> PreRead / SyncReadStep with that result          *)
(*   beWrite(p,v,ttl,c) backend write finished / faulted  -> RefreshWrite / BuildWrite                        *)
(*   benter(p,tok)      builder entered                   -> BStart(p)       *)
(*   bexit(p,ok,ttl)    builder about to return           -> BEnd(p, ..)     *)
(*   ret(p,v,err)       Get returned                      -> res[p] must already hold exactly that             *)
(* The recorder serialises backend operation + log line with one mutex, so    *)
(* the order of the lines is the order of the backend effects; everything the *)
(* Failover does between two call-outs (elect, branch, failure-cache read and *)
(* write, publish, decide, release, waking up) is NOT logged: those are        *)
(* silent steps, taken by any process at any time.  Acceptance = some         *)
(* interleaving of silent steps consumes every line (high-water mark, early   *)
(* stop at the first complete explanation).                                   *)
(***************************************************************************)
EXTENDS Failover, Json

CONSTANT TraceFile,
         DevE      \* TRUE only to CLASSIFY a rejected trace over SyncMap: the named deviation below is allowed
Trace == ndJsonDeserialize(TraceFile)

(* Named deviation of SyncMap (known findings KF-C16-1 / KF-C08-2, defect D10 SyncMap part): ExpireAll renews the expiry *)
(* of every entry IN PLACE, so an expired item that a Get read BEFORE the ExpireAll reports the renewed expiry (now) when *)
(* the Failover asks it later - a value that was too stale when it was read passes for an acceptable stale one.         *)
ExtExpireAllRenew ==
  /\ running = "none" /\ EnvOps
  /\ be' = [k \in Keys |-> IF be[k] = None THEN None ELSE [be[k] EXCEPT !.e = now]]
  /\ loc' = [p \in Procs |-> IF loc[p].rd.c = "expired" THEN [loc[p] EXCEPT !.rd.e = now] ELSE loc[p]]
  /\ act' = [p |-> "", name |-> "ExtExpireAll", out |-> "", arg |-> 0]
  /\ UNCHANGED <<now, stored, writes, bsrc, errs, locks, lrec, nlock, pc, res, building, nb, produced, berrs, fails, met, gh,
                 faults, running>>

VARIABLE l
tvars == <<vars, l>>

Ev == Trace[l]

Silent(q) ==
  \/ Elect(q) \/ Branch(q) \/ WaitLog(q) \/ Wait(q) \/ RefreshLog(q) \/ RefreshStat(q) \/ FailCheck(q) \/ Spawn(q)
  \/ BuildLog(q) \/ FailStat(q) \/ ErrWrite(q) \/ ChangeStat(q) \/ BuildStat(q) \/ Publish(q) \/ WarnLog(q)
  \/ Decide(q) \/ Release(q)

Logged(e) ==
  LET p == e.p IN
  CASE e.ev = "call"    -> Start(p)
    [] e.ev = "beRead"  ->
         /\ \/ PreRead(p, e.c = "beerr") \/ SyncReadStep(p, e.c = "beerr")
         /\ loc'[p].rd.c = e.c
         /\ (e.c \in {"hit", "expired"} => loc'[p].rd.v = e.v)
    [] e.ev = "beWrite" ->
         \/ (RefreshWrite(p, e.c = "fault") /\ loc[p].stale = e.v /\ e.ttl = UpdTTL)
         \/ (BuildWrite(p, e.c = "fault") /\ loc[p].bv = e.v /\ e.ttl = (IF HasCell[p] THEN loc[p].cell ELSE 0))
    [] e.ev = "benter"  -> BStart(p) /\ Tok(K(p), nb'[K(p)]) = e.v
    [] e.ev = "bexit"   -> \E t \in TTLUpd : BEnd(p, e.c = "ok", t, FALSE) /\ t = e.ttl
    [] e.ev = "ret"     ->
         /\ res[p].done /\ res[p].err = e.err /\ (e.err = "" => res[p].v = e.v)
         /\ UNCHANGED vars
    [] e.ev = "extexpire" -> IF DevE THEN ExtExpireAllRenew ELSE ExtExpireAll
    [] OTHER -> FALSE

Consume == l <= Len(Trace) /\ Logged(Ev) /\ l' = l + 1
Quiet1 == l <= Len(Trace) /\ (\E q \in Procs : Silent(q)) /\ UNCHANGED l

TraceInit == Init /\ l = 1 /\ TLCSet(1, 1)
TraceNext == (Consume \/ Quiet1) /\ now' = now
TraceSpec == TraceInit /\ [][TraceNext]_tvars

HighWater == TLCSet(1, IF l > TLCGet(1) THEN l ELSE TLCGet(1))
NotDone == l <= Len(Trace)
TraceAccepted ==
  IF TLCGet(1) = Len(Trace) + 1 THEN TRUE ELSE Print(<<"TRACE_REJECTED_AT_LINE", TLCGet(1)>>, FALSE)

(* state projection that is enough to recognise an explored configuration again *)
TView == <<View, l>>
=============================================================================
