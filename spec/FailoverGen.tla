----------------------------- MODULE FailoverGen -----------------------------
(***************************************************************************)
(* Schedule generator for Failover: run with `tlc -simulate` and            *)
(* RunToGate = TRUE.  Every behaviour that reaches AllDone is printed as     *)
(*    TRACE [ {p, name, out, arg, pcb, pca, end, res, cell, st}, ... ]       *)
(* one entry per model step; `end` marks the end of a macro-step (the        *)
(* scheduled process reached a gate, blocked or finished) and `st` is the    *)
(* abstract state the Go harness compares with the real objects there.       *)
(***************************************************************************)
EXTENDS Failover, Json

VARIABLES hist, done

Ents(f) == {[k |-> k, v |-> f[k].v, e |-> f[k].e] : k \in {kk \in Keys : f[kk] # None}}

Snap == [be |-> Ents(be), errs |-> Ents(errs),
         locks |-> Cardinality({k \in Keys : locks[k] # 0}),
         nb |-> nb, met |-> met, now |-> now]

NoRes == [done |-> FALSE, v |-> "", err |-> ""]

(* The first entry carries the prepared contents the harness has to set up. *)
NoSnap == [be |-> {}, errs |-> {}, locks |-> 0, nb |-> [k \in Keys |-> 0],
           met |-> [build |-> 0, failed |-> 0, refreshed |-> 0, changed |-> 0], now |-> 0]

GenInit ==
  /\ Init /\ done = FALSE
  /\ hist = <<[p |-> "", name |-> "Init", out |-> "", arg |-> 0, pcb |-> "", pca |-> "", end |-> TRUE,
               res |-> NoRes, cell |-> 0, st |-> Snap]>>

GenStep ==
  /\ ~AllDone
  /\ Next
  /\ hist' = Append(hist, [p |-> act'.p, name |-> act'.name, out |-> act'.out, arg |-> act'.arg,
                           pcb |-> IF act'.p = "" THEN "" ELSE pc[act'.p],
                           pca |-> IF act'.p = "" THEN "" ELSE pc'[act'.p],
                           end |-> (running' = "none"),
                           res |-> IF act'.p = "" THEN NoRes ELSE res'[act'.p],
                           cell |-> IF act'.p = "" THEN 0 ELSE loc'[act'.p].cell,
                           \* the snapshot is compared at macro-step ends only; elsewhere a constant keeps the line short
                           st |-> IF running' = "none" THEN Snap' ELSE NoSnap])
  /\ UNCHANGED done

Finish == AllDone /\ ~done /\ done' = TRUE /\ UNCHANGED <<vars, hist>>

GenNext == GenStep \/ Finish
GenSpec == GenInit /\ [][GenNext]_<<vars, hist, done>>

Emit == done => PrintT("TRACE " \o ToJson(hist))
=============================================================================
