---------------------------- MODULE ExpiryMap ----------------------------
(***************************************************************************)
(* The reference object of property C07: a map with per-entry expiry.      *)
(* Time is a tick counter `now`; an entry [v, e] is expired at every tick   *)
(* >= e (see DESIGN.md 2.3 for how ticks map to real durations), NoExp      *)
(* marks an entry that never expires.                                       *)
(*                                                                         *)
(* Every operation sets `reply`, a record of uniform shape                  *)
(*   [r : result class, v : value, e : expiry tick, n : count].            *)
(***************************************************************************)
EXTENDS Integers, FiniteSets

CONSTANTS
  Keys,       \* model keys
  Vals,       \* model values
  TTLs,       \* per-call TTL choices in ticks, 0 = "use configured default"
  CfgTTL,     \* configured TimeToLive in ticks (ignored when Unlimited)
  Unlimited,  \* BOOLEAN, TimeToLive = UnlimitedTTL
  DEA,        \* DeleteExpiredAfter in ticks
  MaxNow      \* bound of the tick counter

VARIABLES now, m, reply

NoExp  == 999
Absent == [v |-> "-", e |-> 0]
NoVal  == ""

Rep(r, v, e, n) == [r |-> r, v |-> v, e |-> e, n |-> n]

(* Effective TTL of a write: context TTL if non-zero, else the configured  *)
(* one; 0 stands for "never expires".                                       *)
EffTTL(ttl) == IF ttl # 0 THEN ttl ELSE IF Unlimited THEN 0 ELSE CfgTTL
ExpiryOf(ttl) == IF EffTTL(ttl) = 0 THEN NoExp ELSE now + EffTTL(ttl)

Present == {k \in Keys : m[k] # Absent}

Init == now = 0 /\ m = [k \in Keys |-> Absent] /\ reply = Rep("init", NoVal, 0, 0)

Write(k, v, ttl) ==
  /\ m' = [m EXCEPT ![k] = [v |-> v, e |-> ExpiryOf(ttl)]]
  /\ reply' = Rep("ok", NoVal, 0, 0)
  /\ UNCHANGED now

ReadReply(k, skip) ==
  IF skip \/ m[k] = Absent THEN Rep("notfound", NoVal, 0, 0)
  ELSE IF m[k].e <= now THEN Rep("expired", m[k].v, m[k].e, 0)
  ELSE Rep("hit", m[k].v, 0, 0)

Read(k, skip) == reply' = ReadReply(k, skip) /\ UNCHANGED <<now, m>>

Delete(k) ==
  /\ reply' = IF m[k] = Absent THEN Rep("notfound", NoVal, 0, 0) ELSE Rep("ok", NoVal, 0, 0)
  /\ m' = [m EXCEPT ![k] = Absent]
  /\ UNCHANGED now

ExpireAll ==
  /\ m' = [k \in Keys |-> IF m[k] = Absent THEN Absent ELSE [m[k] EXCEPT !.e = now]]
  /\ reply' = Rep("ok", NoVal, 0, 0)
  /\ UNCHANGED now

DeleteAll ==
  /\ m' = [k \in Keys |-> Absent]
  /\ reply' = Rep("ok", NoVal, 0, 0)
  /\ UNCHANGED now

LenOp == reply' = Rep("n", NoVal, 0, Cardinality(Present)) /\ UNCHANGED <<now, m>>

(* Reference janitor (C11): removes exactly the entries that have been     *)
(* expired for DEA ticks or longer; never-expiring entries stay.            *)
Cleanup ==
  /\ m' = [k \in Keys |-> IF m[k] # Absent /\ m[k].e # NoExp /\ m[k].e + DEA <= now
                             THEN Absent ELSE m[k]]
  /\ reply' = Rep("n", NoVal, 0, 0)
  /\ UNCHANGED now

WalkStop == reply' = (IF Present = {} THEN Rep("n", NoVal, 0, 0) ELSE Rep("stopped", NoVal, 0, 0)) /\ UNCHANGED <<now, m>>

Relay == reply' = Rep("n", NoVal, 0, Cardinality(Present)) /\ UNCHANGED <<now, m>>

Tick == now < MaxNow /\ now' = now + 1 /\ reply' = Rep("ok", NoVal, 0, 0) /\ UNCHANGED m

Next ==
  \/ \E k \in Keys, v \in Vals, t \in TTLs : Write(k, v, t)
  \/ \E k \in Keys, s \in BOOLEAN : Read(k, s)
  \/ \E k \in Keys : Delete(k)
  \/ ExpireAll \/ DeleteAll \/ LenOp \/ Tick \/ Cleanup \/ Relay \/ WalkStop

vars == <<now, m, reply>>
Spec == Init /\ [][Next]_vars
=============================================================================
