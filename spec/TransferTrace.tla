---------------------------- MODULE TransferTrace ----------------------------
(* Code -> model: every line is an operation executed on real HTTPTransfer    *)
(* objects with the importer's and exporter's cache contents observed after   *)
(* it; TLC accepts the line iff Transfer's action of that name can produce    *)
(* exactly these contents.  Lines {"ev":"reset"} start a fresh pair.          *)
EXTENDS Integers, Sequences, FiniteSets, TLC, Json

CONSTANTS ExpNames, ImpNames, Keys, Vals, MaxOps, TraceFile
VARIABLES exp, imp, op, clk, lines, l

T == INSTANCE Transfer

Trace == ndJsonDeserialize(TraceFile)
Ev == Trace[l]

Obs(rec, names) == [n \in names |-> [k \in Keys |-> IF k \in DOMAIN rec[n] THEN rec[n][k] ELSE "-"]]

Dispatch(o) ==
  CASE o.name = "PutExp" -> T!PutExp(o.n, o.k, o.v)
    [] o.name = "PutImp" -> T!PutImp(o.n, o.k, o.v)
    [] o.name = "Import" -> T!Import(o.mode, o.who)
    [] o.name = "ExportJSONL" -> T!ExportJSONL(o.n)
    [] OTHER -> FALSE

TraceOp ==
  /\ l <= Len(Trace) /\ Ev.ev = "op" /\ l' = l + 1
  /\ Dispatch(Ev.op)
  /\ imp' = Obs(Ev.imp, ImpNames)
  /\ exp' = Obs(Ev.exp, ExpNames)
  /\ (Ev.op.name = "ExportJSONL" => lines' = {<<Ev.lines[i][1], Ev.lines[i][2], Ev.lines[i][3]>> : i \in DOMAIN Ev.lines})

TraceReset ==
  /\ l <= Len(Trace) /\ Ev.ev = "reset" /\ l' = l + 1
  /\ exp' = [n \in ExpNames |-> T!Empty] /\ imp' = [n \in ImpNames |-> T!Empty]
  /\ op' = [name |-> "Init", n |-> "", k |-> "", v |-> "", mode |-> "", who |-> ""] /\ clk' = 0 /\ lines' = {}

TraceInit == T!Init /\ l = 1
TraceSpec == TraceInit /\ [][TraceOp \/ TraceReset]_<<exp, imp, op, clk, lines, l>>

TraceAccepted ==
  LET d == TLCGet("stats").diameter IN
  IF d - 1 = Len(Trace) THEN TRUE ELSE Print(<<"TRACE_REJECTED_AT_LINE", d>>, FALSE)
=============================================================================
