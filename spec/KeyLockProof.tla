------------------------------ MODULE KeyLockProof ------------------------------
(***************************************************************************)
(* The per-key build lock of Failover.Get, reduced to its protocol:        *)
(* elect (under Failover.lock) - build - release+close (under              *)
(* Failover.lock); waiters block on the owner's lock record until it is     *)
(* closed.  Small enough for an INDUCTIVE invariant: Apalache proves        *)
(* Init => IndInv and IndInv /\ Next => IndInv' for all states, not only    *)
(* the reachable ones of a bounded run; TLC checks that Failover.tla        *)
(* refines this module (KeyLockRef in FailoverKeyLock.tla).                 *)
(***************************************************************************)
EXTENDS Integers, FiniteSets, TLAPS

CONSTANTS
  \* @type: Set(Str);
  Procs,
  \* @type: Set(Str);
  Keys,
  \* @type: Str -> Str;
  KeyOf

VARIABLES
  \* @type: Str -> Str;
  lockOwner,     \* key -> owner process, "" = unlocked
  \* @type: Str -> Str;
  pc,            \* process -> "idle" | "owner" | "building" | "built" | "waiting" | "done"
  \* @type: Str -> Str;
  waitsOn,       \* waiter -> owner whose record it waits on ("" = none)
  \* @type: Str -> Bool;
  closed         \* owner process -> its lock record is closed

vars == <<lockOwner, pc, waitsOn, closed>>

Init ==
  /\ lockOwner = [k \in Keys |-> ""]
  /\ pc = [p \in Procs |-> "idle"]
  /\ waitsOn = [p \in Procs |-> ""]
  /\ closed = [p \in Procs |-> FALSE]

Elect(p) ==
  /\ pc[p] = "idle"
  /\ IF lockOwner[KeyOf[p]] = ""
       THEN /\ lockOwner' = [lockOwner EXCEPT ![KeyOf[p]] = p]
            /\ pc' = [pc EXCEPT ![p] = "owner"]
            /\ UNCHANGED waitsOn
       ELSE /\ waitsOn' = [waitsOn EXCEPT ![p] = lockOwner[KeyOf[p]]]
            /\ pc' = [pc EXCEPT ![p] = "waiting"]
            /\ UNCHANGED lockOwner
  /\ UNCHANGED closed

(* an owner may skip the build (cache hit in the critical section, cached failure, early error return) *)
BStart(p) == pc[p] = "owner" /\ pc' = [pc EXCEPT ![p] = "building"] /\ UNCHANGED <<lockOwner, waitsOn, closed>>
BEnd(p) == pc[p] = "building" /\ pc' = [pc EXCEPT ![p] = "built"] /\ UNCHANGED <<lockOwner, waitsOn, closed>>

Release(p) ==
  /\ pc[p] \in {"owner", "built"}
  /\ lockOwner' = [lockOwner EXCEPT ![KeyOf[p]] = ""]
  /\ closed' = [closed EXCEPT ![p] = TRUE]
  /\ pc' = [pc EXCEPT ![p] = "done"]
  /\ UNCHANGED waitsOn

Wake(p) ==
  /\ pc[p] = "waiting" /\ closed[waitsOn[p]]
  /\ pc' = [pc EXCEPT ![p] = "done"]
  /\ UNCHANGED <<lockOwner, waitsOn, closed>>

(* a waiter does not have to wait: it is served an acceptable stale value, a cache hit in the critical section, or a
   backend error at once *)
Leave(p) ==
  /\ pc[p] = "waiting"
  /\ pc' = [pc EXCEPT ![p] = "done"]
  /\ UNCHANGED <<lockOwner, waitsOn, closed>>

Next == \E p \in Procs : Elect(p) \/ BStart(p) \/ BEnd(p) \/ Release(p) \/ Wake(p) \/ Leave(p)
Spec == Init /\ [][Next]_vars

Holding == {"owner", "building", "built"}

TypeOK ==
  /\ lockOwner \in [Keys -> Procs \cup {""}]
  /\ pc \in [Procs -> {"idle", "owner", "building", "built", "waiting", "done"}]
  /\ waitsOn \in [Procs -> Procs \cup {""}]
  /\ closed \in [Procs -> BOOLEAN]

(* The inductive invariant. *)
IndInv ==
  /\ TypeOK
  /\ \A k \in Keys : lockOwner[k] # "" => (pc[lockOwner[k]] \in Holding /\ KeyOf[lockOwner[k]] = k)
  /\ \A p \in Procs : pc[p] \in Holding => lockOwner[KeyOf[p]] = p
  /\ \A p \in Procs : closed[p] => (pc[p] = "done" /\ waitsOn[p] = "")
  /\ \A p \in Procs : pc[p] \in Holding \cup {"idle"} => (~closed[p] /\ waitsOn[p] = "")
  /\ \A q \in Procs : pc[q] = "waiting" =>
        /\ waitsOn[q] \in Procs /\ waitsOn[q] # q /\ KeyOf[waitsOn[q]] = KeyOf[q]
        /\ (pc[waitsOn[q]] \in Holding \/ closed[waitsOn[q]])     \* somebody will close, or has closed, the record

(* C01 / C04 at protocol level, consequences of IndInv *)
OneBuilderPerKey == \A p, q \in Procs : pc[p] = "building" /\ pc[q] = "building" /\ KeyOf[p] = KeyOf[q] => p = q
NoOrphanWaiter == \A q \in Procs : pc[q] = "waiting" => (pc[waitsOn[q]] \in Holding \/ closed[waitsOn[q]])
LocksReleased == (\A p \in Procs : pc[p] \in {"idle", "done"}) => \A k \in Keys : lockOwner[k] = ""

ASSUME Assumptions == KeyOf \in [Procs -> Keys] /\ "" \notin Procs

THEOREM InitInv == Init => IndInv
  BY Assumptions DEF Init, IndInv, TypeOK, Holding

THEOREM StepInv == IndInv /\ [Next]_vars => IndInv'
<1> SUFFICES ASSUME IndInv, [Next]_vars PROVE IndInv'
  OBVIOUS
<1> USE Assumptions DEF IndInv, TypeOK, Holding
<1>1. ASSUME NEW p \in Procs, Elect(p) PROVE IndInv'
  BY <1>1 DEF Elect
<1>2. ASSUME NEW p \in Procs, BStart(p) PROVE IndInv'
  BY <1>2 DEF BStart
<1>3. ASSUME NEW p \in Procs, BEnd(p) PROVE IndInv'
  BY <1>3 DEF BEnd
<1>4. ASSUME NEW p \in Procs, Release(p) PROVE IndInv'
  BY <1>4 DEF Release
<1>5. ASSUME NEW p \in Procs, Wake(p) PROVE IndInv'
  BY <1>5 DEF Wake
<1>6. ASSUME NEW p \in Procs, Leave(p) PROVE IndInv'
  BY <1>6 DEF Leave
<1>7. CASE UNCHANGED vars
  BY <1>7 DEF vars
<1> QED BY <1>1, <1>2, <1>3, <1>4, <1>5, <1>6, <1>7 DEF Next

THEOREM Safety == IndInv => OneBuilderPerKey /\ NoOrphanWaiter /\ LocksReleased
  BY Assumptions DEF IndInv, TypeOK, Holding, OneBuilderPerKey, NoOrphanWaiter, LocksReleased

THEOREM Spec => []IndInv
  BY InitInv, StepInv, PTL DEF Spec
=============================================================================
