----------------------------- MODULE StoreTrace -----------------------------
(***************************************************************************)
(* Trace validation (code -> model) for the backends: each line of the      *)
(* ndjson file is one operation executed on the REAL cache with the reply,  *)
(* the Walk projection of its contents and the metric totals observed after *)
(* it.  A line is consumed iff the Store action of that name is enabled and *)
(* can produce exactly the observed reply, contents and metrics.  Lines     *)
(* {"ev":"reset"} separate independent traces (fresh cache).                *)
(***************************************************************************)
EXTENDS StoreRef, Json

CONSTANT TraceFile

Trace == ndJsonDeserialize(TraceFile)

VARIABLE l

SetOf(s) == {s[i] : i \in DOMAIN s}
StateProj == {slot[h] : h \in Used(slot)}

Ev == Trace[l]

Dispatch(o) ==
  CASE o.name = "Write"     -> Write(o.k, o.v, o.ttl)
    [] o.name = "Store"     -> Store(o.k, o.v)
    [] o.name = "Read"      -> Read(o.k, o.skip)
    [] o.name = "Load"      -> Load(o.k)
    [] o.name = "Delete"    -> Delete(o.k)
    [] o.name = "ExpireAll" -> ExpireAll
    [] o.name = "DeleteAll" -> DeleteAll
    [] o.name = "Len"       -> LenOp
    [] o.name = "Walk"      -> Walk
    [] o.name = "WalkStop"  -> WalkStop
    [] o.name = "Tick"      -> Tick
    [] o.name = "Relay"     -> Relay
    [] o.name = "RelaySelf" -> RelaySelf
    [] o.name = "Cleanup"   -> Cleanup(o.skip)
    [] OTHER                -> FALSE

(* Load folds "notfound"/"expired" into ok=false: the recorder logs "notok". *)
ReplyMatches(o, r) ==
  IF o.name = "Load" /\ r.r = "notok" THEN reply'.r \in {"notfound", "expired"} ELSE reply' = r

(* the operation of the line with its reply, clock and metrics - without the contents *)
TraceOpNoState ==
  /\ l <= Len(Trace) /\ Ev.ev = "op"
  /\ l' = l + 1
  /\ Dispatch(Ev.op)
  /\ ReplyMatches(Ev.op, Ev.reply)
  /\ now' = Ev.now
  /\ \A x \in Metrics : met'[x] = Ev.met[x]

TraceOp == TraceOpNoState /\ StateProj' = SetOf(Ev.st)

TraceReset ==
  /\ l <= Len(Trace) /\ Ev.ev = "reset"
  /\ l' = l + 1
  /\ now' = 0 /\ slot' = [h \in Slots |-> None] /\ expSeen' = FALSE /\ clk' = 0
  /\ op' = Op("Init", "", NoVal, 0, FALSE) /\ reply' = Rep("init", NoVal, 0, 0)
  /\ met' = [x \in Metrics |-> 0] /\ cnt' = [x \in Ghosts |-> 0]

TraceInit == Init /\ l = 1
TraceNext == TraceOp \/ TraceReset
TraceSpec == TraceInit /\ [][TraceNext]_<<vars, l>>

(* Every line consumed <=> the chain of states is as long as the trace.      *)
TraceAccepted ==
  LET d == TLCGet("stats").diameter IN
  IF d - 1 = Len(Trace) THEN TRUE
  ELSE Print(<<"TRACE_REJECTED_AT_LINE", d>>, FALSE)
=============================================================================
