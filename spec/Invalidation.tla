---------------------------- MODULE Invalidation ----------------------------
(***************************************************************************)
(* InvalidationIndex (invalidator.go): label index of cache keys per cache  *)
(* name, deleters registered per name, and InvalidateByLabels decomposed    *)
(* as in the code:                                                          *)
(*   Snapshot  - copy of the per-name maps and deleter lists   (under mu);  *)
(*               only names that some AddLabels has created are visited      *)
(*   CutKeys   - per name: take the key lists of the requested labels out   *)
(*               of the index                                   (under mu)  *)
(*   Delete    - one call-out Deleter.Delete(key) per key and deleter;      *)
(*               ErrNotFound is ignored, any other error aborts             *)
(*   PutBack   - on abort: keys not yet deleted go back into the index      *)
(*               (under mu), the error is returned                          *)
(* AddLabels / AddCache / cache writes may interleave between these steps.  *)
(*                                                                         *)
(* The model describes the repaired behaviour of defect D9 (put-back loop,  *)
(* duplicate label arguments).                                              *)
(***************************************************************************)
EXTENDS Integers, Sequences, FiniteSets, TLC

CONSTANTS
  Names, Labels, Keys,
  Dels,         \* deleter (cache) ids
  NameOfDel,    \* [Dels -> Names]: the name a deleter is (or will be) registered under
  InitRegd,     \* [Names -> Seq(Dels)]: deleters registered from the start
  Procs,        \* invalidation calls
  ArgsOf,       \* [Procs -> Seq(Labels)]: label arguments (duplicates allowed)
  MaxFaults,    \* budget of failing Delete calls
  MaxEnv,       \* budget of environment steps (AddLabels / AddCache / Put)
  RunToGate,    \* generator discipline: a call runs until its next Delete call-out
  AtomicCalls   \* generator discipline: a call runs to completion (no call-out is a gate)

VARIABLES
  labeled,   \* [Names -> [Labels -> Seq(Keys)]]
  known,     \* SUBSET Names: names that have an entry in labeledKeysByName (created by the first AddLabels)
  regd,      \* [Names -> Seq(Dels)]
  cont,      \* [Dels -> SUBSET Keys]: keys present in each cache
  pc,        \* [Procs -> label]
  loc,       \* [Procs -> locals]
  res,       \* [Procs -> [done, n, err]]
  faults, envn, running, act

vars == <<labeled, known, regd, cont, pc, loc, res, faults, envn, running, act>>

SeqToSet(s) == {s[i] : i \in DOMAIN s}
Filter(s, P(_)) == SelectSeq(s, P)

LocInit == [names |-> {},        \* names still to process (snapshot)
            dsnap |-> <<>>,      \* snapshot of deleter lists [Names -> Seq(Dels)]
            name |-> "",         \* name in progress
            cut |-> <<>>,        \* [label -> Seq(Keys)] cut out of the index, labels still unprocessed
            deleted |-> {},      \* keys fully deleted for this name (dedup index)
            li |-> 1, ki |-> 1, di |-> 1,
            cnt |-> 0,
            lab0 |-> <<>>,       \* ghost: the index as it was at the snapshot
            envAt |-> 0]         \* ghost: environment step counter at the snapshot

Init ==
  /\ labeled = [n \in Names |-> [l \in Labels |-> <<>>]]
  /\ known = {}
  /\ regd = InitRegd
  /\ cont = [d \in Dels |-> {}]
  /\ pc = [p \in Procs |-> "idle"]
  /\ loc = [p \in Procs |-> LocInit]
  /\ res = [p \in Procs |-> [done |-> FALSE, n |-> 0, err |-> ""]]
  /\ faults = 0 /\ envn = 0
  /\ running = "none"
  /\ act = [p |-> "", name |-> "Init", a |-> "", b |-> "", c |-> <<>>]

Sched(p) == running \in {"none", p}
Gates == IF AtomicCalls THEN {} ELSE {"delete"}
Run(p) == running' = IF RunToGate /\ pc'[p] \notin Gates \cup {"done"} THEN p ELSE "none"
Act(p, name, a, b, c) == act' = [p |-> p, name |-> name, a |-> a, b |-> b, c |-> c]

---------------------------------------------------------------------------
(* Environment: labelling, cache registration, cache content.               *)

EnvFrame == running = "none" /\ envn < MaxEnv /\ envn' = envn + 1
            /\ UNCHANGED <<pc, loc, res, faults, running>>

AddLabels(n, k, ls) ==      \* ls: non-empty sequence of labels
  /\ EnvFrame
  /\ labeled' = [labeled EXCEPT ![n] =
        [l \in Labels |-> labeled[n][l] \o [i \in 1..Cardinality({j \in DOMAIN ls : ls[j] = l}) |-> k]]]
  /\ known' = known \cup {n}
  /\ Act("", "AddLabels", n, k, ls)
  /\ UNCHANGED <<regd, cont>>

AddCache(d) ==
  /\ EnvFrame
  /\ d \notin UNION {SeqToSet(regd[n]) : n \in Names}
  /\ regd' = [regd EXCEPT ![NameOfDel[d]] = Append(@, d)]
  /\ Act("", "AddCache", NameOfDel[d], d, <<>>)
  /\ UNCHANGED <<labeled, known, cont>>

Put(d, k) ==
  /\ EnvFrame
  /\ k \notin cont[d]
  /\ cont' = [cont EXCEPT ![d] = @ \cup {k}]
  /\ Act("", "Put", d, k, <<>>)
  /\ UNCHANGED <<labeled, known, regd>>

---------------------------------------------------------------------------
(* InvalidateByLabels(ArgsOf[p]...)                                         *)

Args(p) == ArgsOf[p]

Snapshot(p) ==
  /\ pc[p] = "idle" /\ Sched(p)
  /\ loc' = [loc EXCEPT ![p].names = known, ![p].dsnap = regd, ![p].cnt = 0, ![p].lab0 = labeled,
                        ![p].envAt = envn]
  /\ pc' = [pc EXCEPT ![p] = "nextname"]
  /\ Act(p, "Snapshot", "", "", Args(p))
  /\ Run(p)
  /\ UNCHANGED <<labeled, known, regd, cont, res, faults, envn>>

(* Next name (map iteration order: any), cut its keys out of the index.      *)
CutKeys(p, n) ==
  /\ pc[p] = "nextname" /\ Sched(p)
  /\ n \in loc[p].names
  /\ LET ls == SeqToSet(Args(p))
         cut == [l \in ls |-> labeled[n][l]] IN
     /\ labeled' = [labeled EXCEPT ![n] = [l \in Labels |-> IF l \in ls THEN <<>> ELSE labeled[n][l]]]
     /\ loc' = [loc EXCEPT ![p].names = @ \ {n}, ![p].name = n, ![p].cut = cut, ![p].deleted = {},
                           ![p].li = 1, ![p].ki = 1, ![p].di = 1]
  /\ pc' = [pc EXCEPT ![p] = "advance"]
  /\ Act(p, "CutKeys", n, "", <<>>)
  /\ Run(p)
  /\ UNCHANGED <<known, regd, cont, res, faults, envn>>

AllNamesDone(p) ==
  /\ pc[p] = "nextname" /\ Sched(p)
  /\ loc[p].names = {}
  /\ res' = [res EXCEPT ![p] = [done |-> TRUE, n |-> loc[p].cnt, err |-> ""]]
  /\ pc' = [pc EXCEPT ![p] = "done"]
  /\ Act(p, "Return", "", "", <<>>)
  /\ Run(p)
  /\ UNCHANGED <<labeled, known, regd, cont, loc, faults, envn>>

CurLabel(p) == Args(p)[loc[p].li]
CurKeys(p)  == IF CurLabel(p) \in DOMAIN loc[p].cut THEN loc[p].cut[CurLabel(p)] ELSE <<>>
CurDels(p)  == loc[p].dsnap[loc[p].name]

(* Loop control between call-outs: find the next (label, key, deleter) to    *)
(* delete, skipping keys already deleted through another label.              *)
Advance(p) ==
  /\ pc[p] = "advance" /\ Sched(p)
  /\ IF loc[p].li > Len(Args(p))
       THEN \* all labels of this name processed
            /\ pc' = [pc EXCEPT ![p] = "nextname"]
            /\ UNCHANGED loc
       ELSE IF loc[p].ki > Len(CurKeys(p))
         THEN \* label finished: delete(cutKeys, label)
              /\ loc' = [loc EXCEPT ![p].li = @ + 1, ![p].ki = 1, ![p].di = 1,
                                    ![p].cut = [l \in DOMAIN loc[p].cut \ {CurLabel(p)} |-> loc[p].cut[l]]]
              /\ pc' = pc
         ELSE LET k == CurKeys(p)[loc[p].ki] IN
              IF k \in loc[p].deleted
                THEN /\ loc' = [loc EXCEPT ![p].ki = @ + 1, ![p].di = 1]
                     /\ pc' = pc
                ELSE IF loc[p].di > Len(CurDels(p))
                  THEN \* deleted[k] = true
                       /\ loc' = [loc EXCEPT ![p].deleted = @ \cup {k}, ![p].ki = @ + 1, ![p].di = 1]
                       /\ pc' = pc
                  ELSE /\ pc' = [pc EXCEPT ![p] = "delete"]
                       /\ UNCHANGED loc
  /\ Act(p, "Advance", "", "", <<>>)
  /\ Run(p)
  /\ UNCHANGED <<labeled, known, regd, cont, res, faults, envn>>

(* The call-out Deleter.Delete(ctx, key).                                   *)
Delete(p, fault) ==
  /\ pc[p] = "delete" /\ Sched(p)
  /\ fault => faults < MaxFaults
  /\ faults' = IF fault THEN faults + 1 ELSE faults
  /\ LET k == CurKeys(p)[loc[p].ki]
         d == CurDels(p)[loc[p].di] IN
     IF fault
       THEN /\ pc' = [pc EXCEPT ![p] = "putback"]
            /\ Act(p, "Delete", d, k, <<"fault">>)
            /\ UNCHANGED <<cont, loc>>
       ELSE /\ cont' = [cont EXCEPT ![d] = @ \ {k}]
            /\ loc' = [loc EXCEPT ![p].di = @ + 1, ![p].cnt = IF k \in cont[d] THEN @ + 1 ELSE @]
            /\ pc' = [pc EXCEPT ![p] = "advance"]
            /\ Act(p, "Delete", d, k, <<IF k \in cont[d] THEN "ok" ELSE "notfound">>)
  /\ Run(p)
  /\ UNCHANGED <<labeled, known, regd, res, envn>>

(* Deferred put-back: every cut key that was not deleted returns to the      *)
(* index under its label; the error is returned.                             *)
PutBack(p) ==
  /\ pc[p] = "putback" /\ Sched(p)
  /\ LET n == loc[p].name
         NotDel(k) == k \notin loc[p].deleted IN
     labeled' = [labeled EXCEPT ![n] =
        [l \in Labels |-> IF l \in DOMAIN loc[p].cut
                            THEN labeled[n][l] \o Filter(loc[p].cut[l], NotDel)
                            ELSE labeled[n][l]]]
  /\ res' = [res EXCEPT ![p] = [done |-> TRUE, n |-> loc[p].cnt, err |-> "DEL"]]
  /\ pc' = [pc EXCEPT ![p] = "done"]
  /\ Act(p, "PutBack", "", "", <<>>)
  /\ Run(p)
  /\ UNCHANGED <<known, regd, cont, loc, faults, envn>>

ProcNext(p) ==
  \/ Snapshot(p) \/ AllNamesDone(p) \/ Advance(p) \/ PutBack(p)
  \/ \E n \in Names : CutKeys(p, n)
  \/ \E f \in BOOLEAN : Delete(p, f)

LabelSeqs == {<<l>> : l \in Labels} \cup {<<l1, l2>> : l1 \in Labels, l2 \in Labels}

EnvNext ==
  \/ \E n \in Names, k \in Keys, ls \in LabelSeqs : AddLabels(n, k, ls)
  \/ \E d \in Dels : AddCache(d)
  \/ \E d \in Dels, k \in Keys : Put(d, k)

Next == (\E p \in Procs : ProcNext(p)) \/ EnvNext
Spec == Init /\ [][Next]_vars

View == <<labeled, known, regd, cont, pc, loc, res, faults, envn, running>>

---------------------------------------------------------------------------
(* Properties (C15)                                                        *)

AllDone == \A p \in Procs : pc[p] = "done"
Idle == \A p \in Procs : pc[p] \in {"idle", "done"}

IndexedKeys(n, ls) == UNION {SeqToSet(labeled[n][l]) : l \in ls}
CachesOf(n) == SeqToSet(regd[n])

(* Completeness: a call that returns nil, and during which nobody else     *)
(* touched index or caches, has removed every key that carried one of its   *)
(* labels at the snapshot from every cache registered under the key's name. *)
CompleteOnReturn ==
  [][\A p \in Procs : pc[p] = "nextname" /\ pc'[p] = "done" /\ envn = loc[p].envAt /\ Cardinality(Procs) = 1 =>
        \A n \in Names : \A l \in SeqToSet(Args(p)) : \A k \in SeqToSet(loc[p].lab0[n][l]) :
            \A d \in SeqToSet(loc[p].dsnap[n]) : k \notin cont'[d]]_vars

(* A key marked deleted for a name is gone from every deleter of the         *)
(* snapshot at the moment it is marked (so dropping it from the index loses  *)
(* nothing, also under concurrency).                                         *)
DeletedMeansGone ==
  [][\A p \in Procs : loc'[p].deleted # loc[p].deleted /\ loc'[p].deleted # {} =>
        \A k \in loc'[p].deleted \ loc[p].deleted : \A i \in DOMAIN CurDels(p) :
            k \notin cont[CurDels(p)[i]] \/ envn # loc[p].envAt]_vars

(* Precision: Delete steps remove only the key they name; nothing else       *)
(* touches cache contents.                                                   *)
Precise ==
  [][\A d \in Dels : cont'[d] # cont[d] =>
        \/ (act'.name = "Put" /\ act'.a = d)
        \/ (act'.name = "Delete" /\ act'.a = d /\ cont[d] \ cont'[d] = {act'.b})]_vars

(* Count = number of entries actually removed by this call.                  *)
CountExact ==
  [][\A p \in Procs : loc'[p].cnt # loc[p].cnt =>
        \/ act'.name = "Snapshot"
        \/ (act'.name = "Delete" /\ act'.p = p /\ loc'[p].cnt = loc[p].cnt + 1 /\ act'.b \in cont[act'.a])]_vars

(* Nothing lost on failure: after PutBack every key that was cut and not     *)
(* deleted is indexed again under its label.                                 *)
PutBackComplete ==
  [][\A p \in Procs : pc[p] = "putback" /\ pc'[p] = "done" =>
        \A l \in DOMAIN loc[p].cut : \A k \in SeqToSet(loc[p].cut[l]) :
            k \notin loc[p].deleted => k \in SeqToSet(labeled'[loc[p].name][l])]_vars

=============================================================================
