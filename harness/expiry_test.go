package harness

import (
	"context"
	"encoding/json"
	"fmt"
	"math/big"
	"math/rand"
	"os"
	"testing"
	"testing/synctest"
	"time"

	"github.com/bool64/cache"
)

type expEv struct {
	Kind      string `json:"kind"`
	Unlimited bool   `json:"unlimited"`
	HasCtx    bool   `json:"hasctx"`
	Src       string `json:"src"`
	Jppm      int    `json:"jppm"`
	Never     bool   `json:"never"`
	Exact     bool   `json:"exact"`
	Rppm      int    `json:"rppm"`
	Before    string `json:"before"`
	At        string `json:"at"`
	After     string `json:"after"`
	EAtEq     bool   `json:"eateq"`
	TNs       string `json:"t_ns"`
	DNs       string `json:"d_ns"`
}

// TestExpiryBounds writes entries under an exact clock for a grid of TTL / jitter settings and records, per write,
// the facts the TLC monitor Expiry.tla judges.
func TestExpiryBounds(t *testing.T) {
	out := os.Getenv("VERIF_TRACE_OUT")
	if out == "" || os.Getenv("VERIF_EXPIRY") == "" {
		t.Skip("VERIF_EXPIRY not set")
	}

	seed := envInt("VERIF_SEED", 1)
	per := int(envInt("VERIF_N", 40))
	res := Result{Extra: map[string]interface{}{}}

	defer func() { mustNoErr(writeJSON(os.Getenv("VERIF_OUT"), res), "write result") }()

	f, err := os.Create(out)
	mustNoErr(err, "trace out")

	defer f.Close()

	enc := json.NewEncoder(f)
	rng := rand.New(rand.NewSource(seed)) //nolint:gosec

	ttls := []time.Duration{
		1, 3, 17, 999, time.Microsecond, 1500 * time.Microsecond, time.Millisecond, 250 * time.Millisecond, time.Second,
		90 * time.Second, 5 * time.Minute, time.Hour, 36 * time.Hour, 30 * 24 * time.Hour, 365 * 24 * time.Hour,
		10 * 365 * 24 * time.Hour, 40 * 365 * 24 * time.Hour,
		// beyond 2^53 ns (104 days) not every duration is a float64: these are not
		200*24*time.Hour + 1, 3*365*24*time.Hour + 12345, 10*365*24*time.Hour + 7, 100*365*24*time.Hour + 333, 100 * 365 * 24 * time.Hour, 150 * 365 * 24 * time.Hour, // beyond ~174 years t+T(1+J/2) itself leaves the int64 nanosecond range
	}
	jitters := []float64{-1, 0, 0.01, 0.25, 0.5, 1}

	lower, upper := 0, 0

	for _, kind := range Kinds {
		for _, j := range jitters {
			jppm := int(j * 1e6)
			if j == 0 {
				jppm = 100000
			}

			if j < 0 {
				jppm = -1
			}

			// config level: finite TTLs (both signs) and Unlimited; context level: none or a TTL (both signs)
			for ci := 0; ci < 6; ci++ {
				cfgTTL := ttls[rng.Intn(len(ttls))]
				if rng.Intn(4) == 0 {
					cfgTTL = -cfgTTL - 1 // negative, and never -1 (= UnlimitedTTL)
				}

				unlimited := ci == 0

				cc := cache.Config{Name: "x", ExpirationJitter: j, TimeToLive: cfgTTL,
					DeleteExpiredJobInterval: 100000 * time.Hour}
				if unlimited {
					cc.TimeToLive = cache.UnlimitedTTL
				}

				// the usage-based strategies keep a counter per entry; it must not drag the previous expiry along
				cc.EvictionStrategy = []cache.EvictionStrategy{cache.EvictMostExpired, cache.EvictLeastRecentlyUsed,
					cache.EvictLeastFrequentlyUsed}[ci%3]

				be := NewBackend(kind, cc)

				for s := 0; s < per; s++ {
					var ctxTTL time.Duration

					// the first samples of every setting are fixed corner values (-1ns equals UnlimitedTTL numerically)
					special := []time.Duration{-1, 1, 0, -time.Microsecond, -time.Hour, -60 * 365 * 24 * time.Hour} // the last one: expiry before 1970 (negative unix time)

					switch {
					case s < len(special):
						ctxTTL = special[s]
					case rng.Intn(2) == 0:
						ctxTTL = ttls[rng.Intn(len(ttls))]
						if rng.Intn(4) == 0 {
							ctxTTL = -ctxTTL
						}
					}

					key := []byte(fmt.Sprintf("k-%d", s))
					ev := expEv{Kind: kind, Unlimited: unlimited, HasCtx: ctxTTL != 0, Jppm: jppm}

					T := cfgTTL
					ev.Src = "cfg"

					if ctxTTL != 0 {
						T = ctxTTL
						ev.Src = "ctx"
					}

					synctest.Test(t, func(t *testing.T) {
						ctx := context.Background()
						if ctxTTL == 0 && s%3 == 0 {
							// "no context TTL" expressed as the default on top of an outer context that carries one
							ctx = cache.WithTTL(cache.WithTTL(ctx, 7*time.Hour, false), cache.DefaultTTL, false)
						}

						if ctxTTL != 0 {
							ctx = cache.WithTTL(ctx, ctxTTL, false)

							// ways of arriving at the same effective context TTL: an update with 0 changes nothing, an update
							// with the same value neither, and a cell that was set to a larger value is lowered by an update
							switch s % 4 {
							case 1:
								_ = cache.WithTTL(ctx, 0, true)
							case 2:
								_ = cache.WithTTL(ctx, ctxTTL, true)
							case 3:
								if ctxTTL < 0 { // a negative update lowers a positive cell: "the minimal non-zero value is kept"
									ctx = cache.WithTTL(context.Background(), time.Hour, false)
									_ = cache.WithTTL(ctx, ctxTTL, true)
								}

								if ctxTTL > 0 && ctxTTL < 100*365*24*time.Hour {
									ctx = cache.WithTTL(context.Background(), ctxTTL+time.Hour, false)
									_ = cache.WithTTL(ctx, ctxTTL, true)
								}
							}
						}

						if s%2 == 1 {
							// the key already holds an entry with another expiry (and has been read): the LAST write decides
							prev := []time.Duration{7 * time.Hour, -3 * time.Second, time.Nanosecond, 90 * 24 * time.Hour}[(s/2)%4]
							mustNoErr(be.Write(cache.WithTTL(context.Background(), prev, false), key, "v0"), "first write")
							_ = be.Read(context.Background(), key)
							time.Sleep(time.Minute)
						}

						t0 := time.Now()
						mustNoErr(be.Write(ctx, key, "v1"), "write")

						var E int64

						var walkEAt time.Time

						_, _ = be.Walk(func(e Ent) error {
							if string(e.K) == string(key) {
								E = e.E
								walkEAt = e.EAt
							}

							return nil
						})

						ev.Never = E == 0
						ev.EAtEq = true

						// the generic map has a second, interface{}-typed walker (WalkDumpRestorer): same instant there
						if of, ok := be.Raw().(*cache.ShardedMapOf[string]); ok {
							_, _ = of.WalkDumpRestorer().Walk(func(e cache.Entry) error {
								if string(e.Key()) == string(key) && !e.ExpireAt().Equal(walkEAt) {
									ev.EAtEq = false
								}

								return nil
							})
						}

						read := func() string {
							r := be.Read(context.Background(), key)
							if r.Class == "expired" && (r.EAt.UnixNano() != E || !walkEAt.Equal(r.EAt)) {
								ev.EAtEq = false
							}

							return r.Class
						}

						if ev.Never {
							ev.Before = read()
							time.Sleep(time.Hour)
							be.Cleanup() // a janitor cycle (the cache also holds entries with a context TTL) leaves it alone
							ev.At = read()
							time.Sleep(200 * 365 * 24 * time.Hour)
							ev.After = read()

							return
						}

						d := E - t0.UnixNano()
						ev.Exact = d == int64(T)
						ev.TNs, ev.DNs = fmt.Sprint(int64(T)), fmt.Sprint(d)

						r := new(big.Int).Mul(big.NewInt(d), big.NewInt(1000000))
						r.Quo(r, big.NewInt(int64(T)))
						ev.Rppm = int(r.Int64())

						if !r.IsInt64() || r.Int64() > 100000000 || r.Int64() < -100000000 {
							ev.Rppm = -999 // absurd ratio, also when the sign of E-t differs from the sign of T
						}

						if ev.Rppm < 1000000 {
							lower++
						} else if ev.Rppm > 1000000 {
							upper++
						}

						// Reads around the expiry instant.
						ev.Before, ev.At = "skip", "skip"

						now := t0.UnixNano()
						if E-1 >= now {
							time.Sleep(time.Duration(E - 1 - now))
							ev.Before = read()
							now = E - 1
						}

						if E >= now {
							time.Sleep(time.Duration(E - now))
							ev.At = read()
							now = E
						}

						if E+1 > now {
							time.Sleep(time.Duration(E + 1 - now))
						}

						ev.After = read()
					})

					_ = enc.Encode(ev)
					res.Evaluations++
				}
			}
		}
	}

	res.Extra["below_nominal"] = lower
	res.Extra["above_nominal"] = upper
}
