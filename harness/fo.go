package harness

import (
	"context"
	"errors"
	"fmt"
	"math/rand"
	"os"
	"strings"
	"sync"
	"sync/atomic"
	"time"

	"github.com/bool64/cache"
)

// FoCfg mirrors the CONSTANTS of spec/Failover.tla.
type FoCfg struct {
	Procs      []string           `json:"Procs"`
	Keys       []string           `json:"Keys"`
	KeyOf      map[string]string  `json:"KeyOf"`
	Skip       map[string]bool    `json:"Skip"`
	HasCell    map[string]bool    `json:"HasCell"`
	Cell0      map[string]int     `json:"Cell0"`
	SyncUpdate bool               `json:"SyncUpdate"`
	SyncRead   bool               `json:"SyncRead"`
	FailHard   bool               `json:"FailHard"`
	MaxStale   int                `json:"MaxStale"`
	FailTTL    int                `json:"FailTTL"`
	UpdTTL     int                `json:"UpdTTL"`
	BeTTL      int                `json:"BeTTL"`
	Generic    bool               `json:"Generic"`
	LogOn      bool               `json:"LogOn"`
	StatOn     bool               `json:"StatOn"`
	InitBe     map[string]*foEntJ `json:"InitBe"`
	InitErrs   map[string]*foEntJ `json:"InitErrs"`
	Backend    string             `json:"Backend"`    // ShardedMap | SyncMap (Generic: ShardedMapOf unless OfAny)
	OfAny      bool               `json:"OfAny"`      // Generic only: FailoverOf[interface{}] over Backend (ShardedMap | SyncMap)
	Collide    bool               `json:"Collide"`    // two keys that collide under xxhash64 (SyncMap backend only: sharded maps share the slot)
	CollideAny bool               `json:"CollideAny"` // ... over any backend (random walks judged by collision-independent monitors only)
	UnitSec    int                `json:"UnitSec"`
	UnitMs     int                `json:"UnitMs"`
	Defaults   bool               `json:"Defaults"` // leave FailedUpdateTTL/UpdateTTL/TimeToLive at library defaults (UnitSec must be 40)
	Mutability bool               `json:"Mutability"`
}

type foEntJ struct {
	K string `json:"k,omitempty"`
	V string `json:"v"`
	E int    `json:"e"`
}

func (c FoCfg) unit() time.Duration {
	if c.UnitMs != 0 { // sub-second ticks: MaxStaleness, TTLs and expiry instants that are not whole seconds
		return time.Duration(c.UnitMs) * time.Millisecond
	}

	if c.UnitSec == 0 {
		return time.Hour
	}

	return time.Duration(c.UnitSec) * time.Second
}

// tokErr is an error carrying a model token; it may wrap a well-known error so that errors.Is(err, X) holds
// (builders fail with context errors, cache sentinels, ... in real life; the library must not special-case them).
type tokErr struct {
	tok  string
	wrap error
}

func (e tokErr) Error() string { return e.tok }
func (e tokErr) Unwrap() error { return e.wrap }

// errFlavours are the errors a failing builder wraps, chosen per invocation.
var errFlavours = []error{nil, context.Canceled, cache.ErrNotFound, context.DeadlineExceeded, cache.ErrExpired}

// errTok maps an error returned by the library to the model's error token.
func errTok(err error) string {
	if err == nil {
		return ""
	}

	var te tokErr
	if errors.As(err, &te) {
		if strings.HasPrefix(err.Error(), "failed to refresh expired value") {
			return "refresh:" + te.tok
		}

		if err.Error() != te.tok {
			return "?wrapped:" + err.Error()
		}

		return te.tok
	}

	return "?" + err.Error()
}

type procKey struct{}

func procOf(ctx context.Context) string {
	p, _ := ctx.Value(procKey{}).(string)

	return p
}

// Event is one line of the recorded real trace.
type Event struct {
	Seq  int64  `json:"seq"`
	Ev   string `json:"ev"`
	P    string `json:"p"`
	K    string `json:"k"`
	V    string `json:"v"`
	Err  string `json:"err"`
	C    string `json:"c"` // class / kind / metric
	N    int    `json:"n"`
	TTL  int    `json:"ttl"`
	E    int    `json:"e"`
	Bg   bool   `json:"bg"`
	Note string `json:"note"`
}

// gate command given when a parked goroutine is released.
type gcmd struct {
	fault bool
	ok    bool
	same  bool // builder returns the (stale) value it is replacing
	ttl   int  // builder TTL hint in ticks (0 = none)
}

type arrival struct {
	p      string
	kind   string // beRead | beWrite | bstart | bend | log:<msg> | stat:<metric>
	key    string // model key
	v      string
	ttl    int
	resume chan gcmd
}

// sched is the deterministic scheduler: goroutines park in gate(), the driver releases them one at a time.
type sched struct {
	mu      sync.Mutex
	parked  map[string]*arrival
	steer   bool // park at gates; false = free running (record only)
	events  []Event
	seq     int64
	km      *KeyMap
	u       time.Duration
	t0      time.Time
	nb      map[string]*int64 // builder invocations per model key
	inside  map[string]int    // builders currently inside, per model key (for the in-harness overlap assertion)
	maxIn   map[string]int
	yield   func()                 // free-running mode: called at gates to shake the schedule
	freeCmd func(kind string) gcmd // free-running mode: outcome / fault chosen by the driver
	serial  *sync.Mutex            // free-running mode: backend operation + its log line are one critical section
	flavour int                    // rotates the error flavour of failing builders
	lastExp map[string]string      // process -> last expired value its backend read returned
	onFail  func(p string)         // called by a failing builder before it returns (every other failure): caller cancels
	handed  []handedItem           // expired items the backend has handed out: what they say must never change
	gateLog bool
	gateSt  bool
}

// handedItem: an expired item returned by a backend Read (the Failover keeps it and asks it for the stale value LATER).
type handedItem struct {
	key   string
	val   string
	now   func() string // the item's value as it reads now
	known bool          // already reported
}

// checkHanded re-reads every item handed out so far: an entry that was handed to a reader is a snapshot - recycling or
// rewriting it behind the reader's back makes the reader serve a value that was never stored under its key.
func (s *sched) checkHanded() {
	s.mu.Lock()
	items := s.handed
	s.mu.Unlock()

	for i := range items {
		if items[i].known {
			continue
		}

		if v := items[i].now(); v != items[i].val {
			items[i].known = true
			s.rec(Event{Ev: "entrymutated", K: items[i].key, V: v, Note: items[i].val})
		}
	}
}

func (s *sched) hand(key, val string, now func() string) {
	s.mu.Lock()
	s.handed = append(s.handed, handedItem{key: key, val: val, now: now})
	s.mu.Unlock()
}

func newSched(km *KeyMap, u time.Duration, keys []string) *sched {
	s := &sched{parked: map[string]*arrival{}, km: km, u: u, nb: map[string]*int64{}, inside: map[string]int{},
		maxIn: map[string]int{}, lastExp: map[string]string{}}
	for _, k := range keys {
		s.nb[k] = new(int64)
	}

	return s
}

func (s *sched) rec(e Event) {
	s.mu.Lock()
	s.seq++
	e.Seq = s.seq
	s.events = append(s.events, e)
	s.mu.Unlock()
}

func (s *sched) gate(p, kind, key, v string, ttl int) gcmd {
	if !s.steer || os.Getenv("VERIF_NOGATE") == kind { // VERIF_NOGATE: binding demonstration (bin/bindingdemo) only
		if s.yield != nil {
			s.yield()
		}

		if s.freeCmd != nil {
			return s.freeCmd(kind)
		}

		return gcmd{ok: true}
	}

	a := &arrival{p: p, kind: kind, key: key, v: v, ttl: ttl, resume: make(chan gcmd)}

	s.mu.Lock()
	if old := s.parked[p]; old != nil {
		// The call shows up at a second call-out while it is still inside the first one: the library has split it over
		// two goroutines (e.g. a builder it no longer waits for).  Recorded, not steered: the new arrival passes through.
		s.mu.Unlock()
		s.rec(Event{Ev: "doublegate", P: p, K: key, C: kind, Note: old.kind})

		return gcmd{ok: true}
	}

	s.parked[p] = a
	s.mu.Unlock()

	return <-a.resume
}

func (s *sched) parkedAt(p string) *arrival {
	s.mu.Lock()
	defer s.mu.Unlock()

	return s.parked[p]
}

func (s *sched) release(p string, c gcmd) bool {
	s.mu.Lock()
	a := s.parked[p]
	delete(s.parked, p)
	s.mu.Unlock()

	if a == nil {
		return false
	}

	a.resume <- c

	return true
}

func (s *sched) anyParked() []string {
	s.mu.Lock()
	defer s.mu.Unlock()

	var r []string
	for p := range s.parked {
		r = append(r, p)
	}

	return r
}

func (s *sched) mkey(key []byte) string {
	if m, ok := s.km.ByReal[string(key)]; ok {
		return m
	}

	return fmt.Sprintf("?%x", key)
}

// ttlTicks converts a context TTL back to model ticks (0 = none).
func (s *sched) ttlTicks(d time.Duration) int {
	if d == 0 {
		return 0
	}

	x := d + s.u/2
	if x%s.u != 0 {
		return 1000000 + int(d/time.Second) // not on the tick grid: reported raw
	}

	return int(x / s.u)
}

// ---- builder -------------------------------------------------------------------------------------------------

type ctxProbe struct{}

// build is the body of every builder function handed to Get.
func (s *sched) build(ctx context.Context, p, mk string, bg func() bool) (string, error) {
	s.gate(p, "bstart", mk, "", 0)

	n := int(atomic.AddInt64(s.nb[mk], 1))

	s.mu.Lock()
	s.inside[mk]++
	if s.inside[mk] > s.maxIn[mk] {
		s.maxIn[mk] = s.inside[mk]
	}
	s.mu.Unlock()

	s.rec(Event{Ev: "benter", P: p, K: mk, N: n, V: fmt.Sprintf("%s#%d", mk, n)})

	c := s.gate(p, "bend", mk, "", 0)

	// The builder communicates a TTL; the returned context is deliberately dropped (updateExisting).
	// A hint of 0 is an explicit WithTTL(ctx, 0, true): "the minimal non-zero value is kept", so it must change nothing.
	if c.ttl != 0 {
		_ = cache.WithTTL(ctx, TickDur(c.ttl, s.u), true)
	} else {
		_ = cache.WithTTL(ctx, 0, true)
	}

	note := ""
	if err := ctx.Err(); err != nil {
		note += "ctxerr:" + err.Error() + ";"
	}

	if _, ok := ctx.Deadline(); ok {
		note += "deadline;"
	}

	if ctx.Done() != nil {
		note += "cancellable;"
	}

	if v, _ := ctx.Value(ctxProbe{}).(string); v != p {
		note += "novalue;"
	}

	s.mu.Lock()
	s.inside[mk]--
	s.mu.Unlock()

	if c.ok {
		v := fmt.Sprintf("%s#%d", mk, n)

		if c.same {
			s.mu.Lock()
			v = s.lastExp[p]
			s.mu.Unlock()
		}

		s.rec(Event{Ev: "bexit", P: p, K: mk, N: n, V: v, C: "ok", TTL: c.ttl, Note: note, Bg: bg()})

		return v, nil
	}

	e := fmt.Sprintf("E:%s#%d", mk, n)
	s.rec(Event{Ev: "bexit", P: p, K: mk, N: n, Err: e, C: "fail", TTL: c.ttl, Note: note, Bg: bg()})

	s.mu.Lock()
	s.flavour++
	fl := errFlavours[s.flavour%len(errFlavours)]
	cancelFirst := s.onFail != nil && s.flavour%2 == 0
	s.mu.Unlock()

	// every other failing build: the caller's context is cancelled while the builder is still running (a synchronous
	// build runs under the caller's context); the failure is a failure all the same
	if cancelFirst {
		s.onFail(p)
	}

	return "", tokErr{tok: e, wrap: fl}
}

// ---- gate-wrapping backends ----------------------------------------------------------------------------------

type gateRW struct {
	s     *sched
	inner cache.ReadWriter
	t0    func() time.Time
}

func (g *gateRW) Read(ctx context.Context, key []byte) (interface{}, error) {
	p, mk := procOf(ctx), g.s.mkey(key)

	c := g.s.gate(p, "beRead", mk, "", 0)
	if c.fault {
		g.s.rec(Event{Ev: "beRead", P: p, K: mk, C: "beerr", Err: "BE:r"})

		return nil, tokErr{tok: "BE:r"}
	}

	if g.s.serial != nil {
		g.s.serial.Lock()
		defer g.s.serial.Unlock()
	}

	g.s.checkHanded()

	v, err := g.inner.Read(ctx, key)
	r := classifyAny(v, err)

	if r.Class == "expired" {
		g.s.mu.Lock()
		g.s.lastExp[p] = r.V
		g.s.mu.Unlock()

		var ex cache.ErrWithExpiredItem
		if errors.As(err, &ex) {
			g.s.hand(mk, r.V, func() string { return decAny(ex.Value()) })
		}
	}

	g.s.rec(Event{Ev: "beRead", P: p, K: mk, C: r.Class, V: r.V, E: g.tick(r)})

	return v, err
}

func (g *gateRW) tick(r ReadRes) int {
	if r.Class != "expired" {
		return 0
	}

	return TickOf(r.EAt.UnixNano(), g.t0(), g.s.u)
}

func (g *gateRW) Write(ctx context.Context, key []byte, v interface{}) error {
	p, mk := procOf(ctx), g.s.mkey(key)
	ttl := g.s.ttlTicks(cache.TTL(ctx))

	c := g.s.gate(p, "beWrite", mk, decAny(v), ttl)
	if c.fault {
		g.s.rec(Event{Ev: "beWrite", P: p, K: mk, V: decAny(v), TTL: ttl, C: "fault", Err: "BE:w"})

		return tokErr{tok: "BE:w"}
	}

	if !g.s.steer {
		// really concurrent run: the value counts as stored from the moment the write is attempted, so that a reader
		// that sees it can never be recorded before it
		if g.s.serial != nil {
			g.s.serial.Lock()
			defer g.s.serial.Unlock()
		}

		g.s.rec(Event{Ev: "beWrite", P: p, K: mk, V: decAny(v), TTL: ttl, C: "ok"})

		return g.inner.Write(ctx, key, v)
	}

	err := g.inner.Write(ctx, key, v)
	g.s.rec(Event{Ev: "beWrite", P: p, K: mk, V: decAny(v), TTL: ttl, C: "ok", Err: errTok(err)})

	return err
}

type gateRWOf struct {
	s     *sched
	inner cache.ReadWriterOf[string]
	t0    func() time.Time
}

func (g *gateRWOf) Read(ctx context.Context, key []byte) (string, error) {
	p, mk := procOf(ctx), g.s.mkey(key)

	c := g.s.gate(p, "beRead", mk, "", 0)
	if c.fault {
		g.s.rec(Event{Ev: "beRead", P: p, K: mk, C: "beerr", Err: "BE:r"})

		return "", tokErr{tok: "BE:r"}
	}

	if g.s.serial != nil {
		g.s.serial.Lock()
		defer g.s.serial.Unlock()
	}

	g.s.checkHanded()

	v, err := g.inner.Read(ctx, key)

	ev := Event{Ev: "beRead", P: p, K: mk}

	var ex cache.ErrWithExpiredItemOf[string]

	switch {
	case err == nil:
		ev.C, ev.V = "hit", v
	case errors.As(err, &ex):
		ev.C, ev.V, ev.E = "expired", ex.Value(), TickOf(ex.ExpiredAt().UnixNano(), g.t0(), g.s.u)

		g.s.mu.Lock()
		g.s.lastExp[p] = ex.Value()
		g.s.mu.Unlock()

		item := ex
		g.s.hand(mk, ex.Value(), func() string { return item.Value() })
	case errors.Is(err, cache.ErrNotFound):
		ev.C = "notfound"
	default:
		ev.C, ev.Err = "error", err.Error()
	}

	g.s.rec(ev)

	return v, err
}

func (g *gateRWOf) Write(ctx context.Context, key []byte, v string) error {
	p, mk := procOf(ctx), g.s.mkey(key)
	ttl := g.s.ttlTicks(cache.TTL(ctx))

	c := g.s.gate(p, "beWrite", mk, v, ttl)
	if c.fault {
		g.s.rec(Event{Ev: "beWrite", P: p, K: mk, V: v, TTL: ttl, C: "fault", Err: "BE:w"})

		return tokErr{tok: "BE:w"}
	}

	if !g.s.steer {
		if g.s.serial != nil {
			g.s.serial.Lock()
			defer g.s.serial.Unlock()
		}

		g.s.rec(Event{Ev: "beWrite", P: p, K: mk, V: v, TTL: ttl, C: "ok"})

		return g.inner.Write(ctx, key, v)
	}

	err := g.inner.Write(ctx, key, v)
	g.s.rec(Event{Ev: "beWrite", P: p, K: mk, V: v, TTL: ttl, C: "ok", Err: errTok(err)})

	return err
}

// foKeys fills the key map with the concrete keys of a Failover run: equal-length keys, so that the caller can
// overwrite its buffer with another live key; with cfg.Collide (two keys, SyncMap behind the Failover) a constructed
// xxhash64 collision - the Failover must keep the keys apart although their hashes are equal.
func foKeys(cfg FoCfg, km *KeyMap, seed int64, salt int64) {
	if cfg.Collide && len(cfg.Keys) == 2 && (cfg.CollideAny || (cfg.Backend == "SyncMap" && (!cfg.Generic || cfg.OfAny))) {
		if a, b, ok := CollidingPair(rand.New(rand.NewSource(seed*31 + salt))); ok { //nolint:gosec
			km.ByModel[cfg.Keys[0]], km.ByModel[cfg.Keys[1]] = a, b
			km.ByReal[string(a)], km.ByReal[string(b)] = cfg.Keys[0], cfg.Keys[1]

			return
		}
	}

	for i, k := range cfg.Keys {
		real := []byte(fmt.Sprintf("key-%02d-%04x", i, (seed*7919+salt*31+int64(i)*104729)&0xffff))
		km.ByModel[k] = real
		km.ByReal[string(real)] = k
	}
}

// ---- logger / stats call-outs ---------------------------------------------------------------------------------

var foLogGates = map[string]string{
	"waiting for cache value":                    "waitlog",
	"refreshing expired value":                   "refreshlog",
	"building cache value":                       "buildlog",
	"failed to update stale cache value":         "warnlog",
	"failed to update cache value in background": "warnlog",
	"failed to cache update failure":             "errlog",
}

type foLogger struct{ s *sched }

func (l foLogger) call(ctx context.Context, level, msg string, kv []interface{}) {
	g, ok := foLogGates[msg]
	if !ok {
		return // emitted by a backend or the failure cache, possibly under a shard lock: never park, not recorded
	}

	p := procOf(ctx)
	l.s.rec(Event{Ev: "log", P: p, C: g, Note: level + ":" + msg})

	if g != "errlog" {
		l.s.gate(p, "log:"+g, "", "", 0)
	}
}

func (l foLogger) Error(ctx context.Context, msg string, kv ...interface{}) {
	l.call(ctx, "error", msg, kv)
}
func (l foLogger) Warn(ctx context.Context, msg string, kv ...interface{}) {
	l.call(ctx, "warn", msg, kv)
}
func (l foLogger) Debug(ctx context.Context, msg string, kv ...interface{}) {
	l.call(ctx, "debug", msg, kv)
}
func (l foLogger) Important(ctx context.Context, msg string, kv ...interface{}) {
	l.call(ctx, "important", msg, kv)
}

var foStatGates = map[string]string{
	cache.MetricRefreshed: "refreshstat",
	cache.MetricFailed:    "failstat",
	cache.MetricBuild:     "buildstat",
	cache.MetricChanged:   "changestat",
}

// statHook parks at the Failover-level metrics (name = the Failover's own name), records everything.
func (s *sched) statHook(foName string) func(ctx context.Context, metric, name string, val float64) {
	return func(ctx context.Context, metric, name string, val float64) {
		if name != foName {
			return
		}

		g, ok := foStatGates[metric]
		if !ok {
			return
		}

		p := procOf(ctx)
		s.gate(p, "stat:"+g, "", "", 0)
		s.rec(Event{Ev: "stat", P: p, C: metric, N: int(val)})
	}
}

// ---- Failover instances ----------------------------------------------------------------------------------------

// foInst hides the difference between Failover and FailoverOf[string].
type foInst interface {
	Get(ctx context.Context, key []byte, build func(ctx context.Context) (string, error)) (string, error)
	KeyLocks() int
	ErrsWalk(fn func(k []byte, tok string, e int64))
	ErrsWrite(ctx context.Context, key []byte, tok string)
	ErrsDeleteAll()
	Backend() Backend
}

type anyFo struct {
	f  *cache.Failover
	be Backend
}

func (a *anyFo) Get(ctx context.Context, key []byte, build func(ctx context.Context) (string, error)) (string, error) {
	v, err := a.f.Get(ctx, key, func(ctx context.Context) (interface{}, error) {
		s, err := build(ctx)
		if err != nil {
			return nil, err
		}

		return s, nil
	})

	if v == nil {
		return "", err
	}

	return decAny(v), err
}

func (a *anyFo) KeyLocks() int    { return a.f.VerifKeyLocks() }
func (a *anyFo) Backend() Backend { return a.be }
func (a *anyFo) ErrsWalk(fn func(k []byte, tok string, e int64)) {
	if a.f.Errors == nil {
		return
	}

	_, _ = a.f.Errors.Walk(func(e cache.Entry) error {
		te, _ := e.(*cache.TraitEntry)
		er, _ := e.Value().(error)
		fn(append([]byte(nil), e.Key()...), errTok(er), atomic.LoadInt64(&te.E))

		return nil
	})
}

func (a *anyFo) ErrsWrite(ctx context.Context, key []byte, tok string) {
	_ = a.f.Errors.Write(ctx, key, error(tokErr{tok: tok}))
}

// ofAnyFo is FailoverOf[interface{}] over a backend of the interface{} family (cache.ReadWriter has the method set
// of cache.ReadWriterOf[interface{}]).
type ofAnyFo struct {
	f  *cache.FailoverOf[interface{}]
	be Backend
}

func (a *ofAnyFo) Get(ctx context.Context, key []byte, build func(ctx context.Context) (string, error)) (string, error) {
	v, err := a.f.Get(ctx, key, func(ctx context.Context) (interface{}, error) {
		s, err := build(ctx)
		if err != nil {
			return nil, err
		}

		return s, nil
	})

	if v == nil {
		return "", err
	}

	return decAny(v), err
}

func (a *ofAnyFo) KeyLocks() int    { return a.f.VerifKeyLocks() }
func (a *ofAnyFo) Backend() Backend { return a.be }
func (a *ofAnyFo) ErrsWalk(fn func(k []byte, tok string, e int64)) {
	if a.f.Errors == nil {
		return
	}

	_, _ = a.f.Errors.Walk(func(e cache.EntryOf[error]) error {
		te, _ := e.(*cache.TraitEntryOf[error])
		fn(append([]byte(nil), e.Key()...), errTok(e.Value()), atomic.LoadInt64(&te.E))

		return nil
	})
}

func (a *ofAnyFo) ErrsDeleteAll() {
	if a.f.Errors != nil {
		a.f.Errors.DeleteAll(context.Background())
	}
}

func (a *ofAnyFo) ErrsWrite(ctx context.Context, key []byte, tok string) {
	_ = a.f.Errors.Write(ctx, key, error(tokErr{tok: tok}))
}

type ofFo struct {
	f  *cache.FailoverOf[string]
	be Backend
}

func (a *ofFo) Get(ctx context.Context, key []byte, build func(ctx context.Context) (string, error)) (string, error) {
	return a.f.Get(ctx, key, build)
}

func (a *ofFo) KeyLocks() int    { return a.f.VerifKeyLocks() }
func (a *ofFo) Backend() Backend { return a.be }
func (a *ofFo) ErrsWalk(fn func(k []byte, tok string, e int64)) {
	if a.f.Errors == nil {
		return
	}

	_, _ = a.f.Errors.Walk(func(e cache.EntryOf[error]) error {
		te, _ := e.(*cache.TraitEntryOf[error])
		fn(append([]byte(nil), e.Key()...), errTok(e.Value()), atomic.LoadInt64(&te.E))

		return nil
	})
}

func (a *anyFo) ErrsDeleteAll() {
	if a.f.Errors != nil {
		a.f.Errors.DeleteAll(context.Background())
	}
}

func (a *ofFo) ErrsDeleteAll() {
	if a.f.Errors != nil {
		a.f.Errors.DeleteAll(context.Background())
	}
}

func (a *ofFo) ErrsWrite(ctx context.Context, key []byte, tok string) {
	_ = a.f.Errors.Write(ctx, key, error(tokErr{tok: tok}))
}

const foName = "fo"

// newFo builds the Failover under test with a gate-wrapping backend around a real one.
// Must be called OUTSIDE a synctest bubble (janitor goroutines).
func newFo(cfg FoCfg, s *sched, stat *StatRec, t0 func() time.Time) foInst {
	u := cfg.unit()
	bc := cache.Config{
		Name:                     "be",
		Stats:                    stat,
		TimeToLive:               TickDur(cfg.BeTTL, u),
		ExpirationJitter:         -1,
		DeleteExpiredAfter:       100000 * time.Hour,
		DeleteExpiredJobInterval: 100000 * time.Hour,
		ItemsCountReportInterval: 100000 * time.Hour,
	}

	if cfg.Defaults {
		bc.TimeToLive = 0
		bc.ExpirationJitter = 0
	}

	var (
		logger cache.Logger
		st     cache.StatsTracker
	)

	if cfg.LogOn {
		logger = foLogger{s}
	}

	if cfg.StatOn {
		st = stat
		stat.Hook = s.statHook(foName)
	}

	ttl := func(n int) time.Duration {
		if n < 0 {
			return -1
		}

		return TickDur(n, u)
	}

	if cfg.Generic && cfg.OfAny && (cfg.Backend == "ShardedMap" || cfg.Backend == "SyncMap") {
		be := NewBackend(cfg.Backend, bc)

		var rw cache.ReadWriterOf[interface{}] = &gateRW{s: s, inner: be.Raw().(cache.ReadWriter), t0: t0}

		fc := cache.FailoverConfigOf[interface{}]{
			Name: foName, Backend: rw, BackendConfig: bc,
			FailedUpdateTTL: ttl(cfg.FailTTL), UpdateTTL: ttl(cfg.UpdTTL), SyncUpdate: cfg.SyncUpdate,
			SyncRead: cfg.SyncRead, MaxStaleness: time.Duration(cfg.MaxStale) * u, FailHard: cfg.FailHard,
			Logger: logger, Stats: st, ObserveMutability: cfg.Mutability,
		}

		if cfg.Defaults {
			fc.FailedUpdateTTL, fc.UpdateTTL = 0, 0
		}

		return &ofAnyFo{f: cache.NewFailoverOf[interface{}](fc.Use), be: be}
	}

	if cfg.Generic {
		be := NewBackend("ShardedMapOf", bc)

		var rw cache.ReadWriterOf[string] = &gateRWOf{s: s, inner: be.Raw().(*cache.ShardedMapOf[string]), t0: t0}
		if cfg.Backend == "Default" {
			rw = nil // FailoverOf builds its own ShardedMapOf from BackendConfig; `be` stays empty
		}

		fc := cache.FailoverConfigOf[string]{
			Name: foName, Backend: rw, BackendConfig: bc,
			FailedUpdateTTL: ttl(cfg.FailTTL), UpdateTTL: ttl(cfg.UpdTTL), SyncUpdate: cfg.SyncUpdate,
			SyncRead: cfg.SyncRead, MaxStaleness: time.Duration(cfg.MaxStale) * u, FailHard: cfg.FailHard,
			Logger: logger, Stats: st, ObserveMutability: cfg.Mutability,
		}

		if cfg.Defaults {
			fc.FailedUpdateTTL, fc.UpdateTTL = 0, 0
		}

		return &ofFo{f: cache.NewFailoverOf[string](fc.Use), be: be}
	}

	kind := cfg.Backend
	if kind == "" {
		kind = "ShardedMap"
	}

	realKind := kind
	if kind == "NoOp" || kind == "Default" {
		realKind = "ShardedMap"
	}

	be := NewBackend(realKind, bc)

	var inner cache.ReadWriter = be.Raw().(cache.ReadWriter)
	if kind == "NoOp" {
		inner = cache.NoOp{} // `be` stays empty and is only there for the snapshot
	}

	var rw cache.ReadWriter = &gateRW{s: s, inner: inner, t0: t0}
	if kind == "Default" {
		rw = nil // Failover builds its own ShardedMap from BackendConfig; `be` stays empty
	}

	fc := cache.FailoverConfig{
		Name: foName, Backend: rw, BackendConfig: bc,
		FailedUpdateTTL: ttl(cfg.FailTTL), UpdateTTL: ttl(cfg.UpdTTL), SyncUpdate: cfg.SyncUpdate,
		SyncRead: cfg.SyncRead, MaxStaleness: time.Duration(cfg.MaxStale) * u, FailHard: cfg.FailHard,
		Logger: logger, Stats: st, ObserveMutability: cfg.Mutability,
	}

	if cfg.Defaults {
		fc.FailedUpdateTTL, fc.UpdateTTL = 0, 0
	}

	return &anyFo{f: cache.NewFailover(fc.Use), be: be}
}
