// Package model (second of two packages of that name): another User, same printed name, different shape.
package model

// User is a value type registered for gob transfer.
type User struct {
	ID    int64
	Email string
	Tags  []string
}
