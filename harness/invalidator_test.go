package harness

import (
	"context"
	"encoding/json"
	"errors"
	"math"
	"math/rand"
	"os"
	"sync"
	"sync/atomic"
	"testing"
	"testing/synctest"
	"time"

	"github.com/bool64/cache"
)

type invrCfg struct {
	Skip        int  `json:"Skip"`
	NCb         int  `json:"NCb"`
	SkipDefault bool `json:"SkipDefault"`
	SkipHuge    bool `json:"SkipHuge"`
	UnitMs      int  `json:"UnitMs"` // one model time unit in milliseconds (default 1000)
}

type invrStepJ struct {
	Op    string `json:"op"`
	D     int    `json:"d"`
	Reply string `json:"reply"`
	NLog  int    `json:"nlog"`
}

func invrReply(err error) string {
	switch {
	case err == nil:
		return "ok"
	case errors.Is(err, cache.ErrAlreadyInvalidated):
		return "already"
	case errors.Is(err, cache.ErrNothingToInvalidate):
		return "nothing"
	}

	return "error:" + err.Error()
}

// TestInvalidatorReplay replays TLC behaviours of spec/Invalidator.tla on virtual time (1 unit = 1 s).
func TestInvalidatorReplay(t *testing.T) {
	in := os.Getenv("VERIF_IN")
	if in == "" {
		t.Skip("VERIF_IN not set")
	}

	var cfg invrCfg
	mustNoErr(readJSON(os.Getenv("VERIF_CFG"), &cfg), "read cfg")

	res := Result{Extra: map[string]interface{}{}}

	defer func() { mustNoErr(writeJSON(os.Getenv("VERIF_OUT"), res), "write result") }()

	var behs [][]invrStepJ

	mustNoErr(readLines(in, func(line []byte) error {
		var b []invrStepJ
		if err := json.Unmarshal(line, &b); err != nil {
			return err
		}

		behs = append(behs, b)

		return nil
	}), "load")

	type ctxK struct{}

	type cancelK struct{}

	unit := time.Second
	if cfg.UnitMs > 0 {
		unit = time.Duration(cfg.UnitMs) * time.Millisecond
	}

	for bi, b := range behs {
		var viol *Violation

		synctest.Test(t, func(t *testing.T) {
			inv := &cache.Invalidator{}
			if !cfg.SkipDefault {
				inv.SkipInterval = time.Duration(cfg.Skip) * unit
			}

			if cfg.SkipHuge { // the largest interval there is: after the first accepted call every call is rejected
				inv.SkipInterval = time.Duration(math.MaxInt64)
			}

			var log []int

			for i := 1; i <= cfg.NCb; i++ {
				i := i

				inv.Callbacks = append(inv.Callbacks, func(ctx context.Context) {
					if v, _ := ctx.Value(ctxK{}).(int); v != bi {
						log = append(log, -1) // context not passed through
					}

					log = append(log, i)

					// a callback may cancel the caller's context: the remaining callbacks still run
					if c, _ := ctx.Value(cancelK{}).(context.CancelFunc); c != nil && i == 1 {
						c()
					}
				})
			}

			for si, st := range b {
				if st.Op == "Adv" {
					time.Sleep(time.Duration(st.D) * unit)

					continue
				}

				// every third call with a context that is already cancelled, every third with one that its first callback
				// cancels: an accepted call runs every callback all the same
				cctx, cancel := context.WithCancel(context.WithValue(context.Background(), ctxK{}, bi))

				switch si % 3 {
				case 1:
					cancel()
				case 2:
					cctx = context.WithValue(cctx, cancelK{}, cancel)
				}

				got := invrReply(inv.Invalidate(cctx))

				cancel()

				okLog := len(log) == st.NLog
				for j, x := range log {
					if x != j%max(cfg.NCb, 1)+1 {
						okLog = false
					}
				}

				if got != st.Reply || !okLog {
					viol = &Violation{Prop: "C17", Behaviour: bi, Step: si,
						What:   "Invalidate result / callback log differ from the specification",
						Want:   map[string]interface{}{"reply": st.Reply, "callbacks_run": st.NLog},
						Got:    map[string]interface{}{"reply": got, "callback_log": append([]int(nil), log...)},
						Sig:    "invalidator/" + st.Reply + "/" + got,
						Replay: map[string]interface{}{"cfg": cfg, "behaviour": b}}

					return
				}
			}
		})

		res.Evaluations++
		res.Steps += len(b)

		if viol != nil {
			res.Violations = append(res.Violations, *viol)
		} else {
			res.Lockstep++
		}

		acc, rej := false, false
		for _, s := range b {
			acc = acc || s.Reply == "ok"
			rej = rej || s.Reply == "already"
		}

		if acc && rej {
			res.Distinct++
		}

		if len(res.Samples) < 2 {
			res.Samples = append(res.Samples, b)
		}
	}
}

// TestInvalidatorConcurrent records really concurrent Invalidate calls on the real clock for MonSkip.
func TestInvalidatorConcurrent(t *testing.T) {
	out := os.Getenv("VERIF_TRACE_OUT")
	if out == "" {
		t.Skip("VERIF_TRACE_OUT not set")
	}

	seed := envInt("VERIF_SEED", 1)
	runs := int(envInt("VERIF_N", 20))
	res := Result{Extra: map[string]interface{}{}}

	defer func() { mustNoErr(writeJSON(os.Getenv("VERIF_OUT"), res), "write result") }()

	f, err := os.Create(out)
	mustNoErr(err, "trace out")

	defer f.Close()

	enc := json.NewEncoder(f)

	for run := 0; run < runs; run++ {
		rng := rand.New(rand.NewSource(seed*1000 + int64(run))) //nolint:gosec
		skipMs := []int{5, 20, 40}[rng.Intn(3)]
		ncb := rng.Intn(4) // 0..3
		callers := 2 + rng.Intn(8)
		perCaller := 2 + rng.Intn(4)

		var (
			mu     sync.Mutex
			events []map[string]interface{}
			t0     = time.Now()
			callID int64
		)

		rec := func(e map[string]interface{}) {
			mu.Lock()
			events = append(events, e)
			mu.Unlock()
		}

		us := func() int { return int(time.Since(t0) / time.Microsecond) }

		type ck struct{}

		inv := &cache.Invalidator{SkipInterval: time.Duration(skipMs) * time.Millisecond}

		// pile-up scenario (every other run): the first accepted run is slower than SkipInterval, callers arrive
		// while it is running (before and after SkipInterval has elapsed) and shortly after it has ended
		pileup := run%2 == 1 && ncb > 0
		slow := time.Duration(skipMs)*time.Millisecond*12/10 + time.Duration(rng.Intn(skipMs*400))*time.Microsecond

		var cbCount int64

		for i := 1; i <= ncb; i++ {
			i := i

			inv.Callbacks = append(inv.Callbacks, func(ctx context.Context) {
				c, _ := ctx.Value(ck{}).(string)
				rec(map[string]interface{}{"ev": "cb", "c": c, "i": i, "ts": us(), "r": ""})
				// mostly quick, sometimes slower than SkipInterval: other callers must then wait on the mutex
				d := time.Duration(rng.Intn(300)) * time.Microsecond
				if first := atomic.AddInt64(&cbCount, 1) == 1; pileup {
					if first {
						d = slow
					}
				} else if rng.Intn(6) == 0 {
					d = time.Duration(skipMs)*time.Millisecond + time.Duration(rng.Intn(skipMs*500))*time.Microsecond
				}

				time.Sleep(d)
				rec(map[string]interface{}{"ev": "cbx", "c": c, "i": i, "ts": us(), "r": ""})
			})
		}

		var wg sync.WaitGroup

		for g := 0; g < callers; g++ {
			wg.Add(1)

			delay := time.Duration(rng.Intn(skipMs*1500)) * time.Microsecond
			first := time.Duration(0)

			if pileup && g > 0 {
				// arrival somewhere in (0.1 Skip, slow + 0.9 Skip); the second call of the caller follows within a SkipInterval
				first = time.Duration(skipMs)*time.Millisecond/10 + time.Duration(rng.Int63n(int64(slow)+int64(skipMs)*800*int64(time.Microsecond)))
				delay = time.Duration(rng.Intn(skipMs*900)) * time.Microsecond
			}

			go func() {
				defer wg.Done()

				time.Sleep(first)

				for k := 0; k < perCaller; k++ {
					c := "c" + itoa(int(atomic.AddInt64(&callID, 1)))
					rec(map[string]interface{}{"ev": "start", "c": c, "i": 0, "ts": us(), "r": ""})
					err := inv.Invalidate(context.WithValue(context.Background(), ck{}, c))
					rec(map[string]interface{}{"ev": "ret", "c": c, "i": 0, "ts": 0, "r": invrReply(err)})
					time.Sleep(delay)
				}
			}()
		}

		wg.Wait()

		_ = enc.Encode(map[string]interface{}{"skip": skipMs * 1000, "ncb": ncb, "events": events})
		res.Evaluations++
	}
}

func itoa(n int) string {
	b, _ := json.Marshal(n)

	return string(b)
}
