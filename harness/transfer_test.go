package harness

import (
	"bytes"
	"context"
	"encoding/json"
	"errors"
	"fmt"
	"io"
	"math/rand"
	"net/http"
	"net/http/httptest"
	"net/url"
	"os"
	"os/exec"
	"sort"
	"strings"
	"testing"

	"github.com/bool64/cache"
	modela "verif/harness/typesa/model"
	modelb "verif/harness/typesb/model"
)

type xferCfg struct {
	ExpNames []string `json:"ExpNames"`
	ImpNames []string `json:"ImpNames"`
	Keys     []string `json:"Keys"`
}

type xferOp struct {
	Name string `json:"name"`
	N    string `json:"n"`
	K    string `json:"k"`
	V    string `json:"v"`
	Mode string `json:"mode"`
	Who  string `json:"who"`
}

type xferRT struct {
	h       http.Handler
	mode    string
	who     string
	frac    float64
	log     *[]string
	expFail bool // "cut": the EXPORTER's connection breaks (its Write fails) instead of the body being truncated on the way
}

// breakingWriter lets the first `limit` bytes through and fails every later Write, like a connection that went away.
type breakingWriter struct {
	*httptest.ResponseRecorder
	limit int
}

func (b *breakingWriter) Write(p []byte) (int, error) {
	room := b.limit - b.ResponseRecorder.Body.Len()
	if room <= 0 {
		return 0, errors.New("write: broken pipe")
	}

	if len(p) > room {
		_, _ = b.ResponseRecorder.Write(p[:room])

		return room, errors.New("write: broken pipe")
	}

	return b.ResponseRecorder.Write(p)
}

func (r *xferRT) RoundTrip(req *http.Request) (*http.Response, error) {
	name := req.URL.Query().Get("name")

	if r.mode == "neterr" && name == r.who {
		return nil, errors.New("injected transport error")
	}

	if r.mode == "hash" || r.mode == "noname" || r.mode == "nohash" {
		q := req.URL.Query()

		switch r.mode {
		case "hash":
			q.Set("typesHash", q.Get("typesHash")+"7")
		case "noname":
			q.Del("name")
		case "nohash":
			q.Del("typesHash")
		}

		req.URL.RawQuery = q.Encode()
	}

	rec := httptest.NewRecorder()
	r.h.ServeHTTP(rec, req)
	resp := rec.Result()
	*r.log = append(*r.log, fmt.Sprintf("%s:%d", name, resp.StatusCode))

	if r.mode == "cut" && name == r.who && resp.StatusCode == http.StatusOK && r.expFail {
		// same request again, this time the exporter itself sees its writes fail after `cut` bytes
		cut := int(float64(rec.Body.Len()) * r.frac)
		bw := &breakingWriter{ResponseRecorder: httptest.NewRecorder(), limit: cut}
		r.h.ServeHTTP(bw, req.Clone(req.Context()))

		return bw.ResponseRecorder.Result(), nil
	}

	if r.mode == "cut" && name == r.who && resp.StatusCode == http.StatusOK {
		body, _ := io.ReadAll(resp.Body)
		cut := int(float64(len(body)) * r.frac)
		resp.Body = io.NopCloser(bytes.NewReader(body[:cut]))
	}

	return resp, nil
}

// family: which backend types serve a cache name on the exporter / importer side (same family, C13).
func xferKinds(i int) (string, string) {
	switch i % 3 {
	case 0:
		return "ShardedMap", "SyncMap"
	case 1:
		return "ShardedMapOf", "ShardedMapOf"
	}

	return "SyncMap", "ShardedMap"
}

func wdr(b Backend) cache.WalkDumpRestorer {
	switch c := b.Raw().(type) {
	case *cache.ShardedMap:
		return c
	case *cache.SyncMap:
		return c
	case *cache.ShardedMapOf[string]:
		return c.WalkDumpRestorer()
	}

	panic("no WalkDumpRestorer")
}

// TestTransferReplay executes TLC-generated operation sequences of spec/Transfer.tla on real HTTPTransfer objects
// and records the contents observed after every operation for TLC (TransferTrace).
func TestTransferReplay(t *testing.T) {
	in := os.Getenv("VERIF_IN")
	if in == "" || os.Getenv("VERIF_XFER") == "" {
		t.Skip("VERIF_XFER not set")
	}

	var cfg xferCfg
	mustNoErr(readJSON(os.Getenv("VERIF_CFG"), &cfg), "read cfg")

	seed := envInt("VERIF_SEED", 1)
	res := Result{Extra: map[string]interface{}{}}

	defer func() { mustNoErr(writeJSON(os.Getenv("VERIF_OUT"), res), "write result") }()

	out, err := os.Create(os.Getenv("VERIF_TRACE_OUT"))
	mustNoErr(err, "trace out")

	defer out.Close()

	enc := json.NewEncoder(out)

	var behs [][]xferOp

	mustNoErr(readLines(in, func(line []byte) error {
		var b []xferOp
		if err := json.Unmarshal(line, &b); err != nil {
			return err
		}

		behs = append(behs, b)

		return nil
	}), "load")

	allNames := map[string]int{}
	for _, n := range append(append([]string{}, cfg.ExpNames...), cfg.ImpNames...) {
		if _, ok := allNames[n]; !ok {
			allNames[n] = len(allNames)
		}
	}

	for bi, b := range behs {
		rng := rand.New(rand.NewSource(seed*7919 + int64(bi))) //nolint:gosec

		km, err := NewKeyMap(seed+int64(bi), false, cfg.Keys)
		mustNoErr(err, "keymap")

		// real cache names: plain, or names that need URL escaping (one pair differs only in '+' versus ' ')
		styles := []map[string]string{
			nil,
			{"a": "orders+eu", "b": "orders eu", "c": "users&roles=1"},
			{"a": "a/b?c", "b": "ü ñ%41", "c": "c#frag;x"},
		}
		rn := func(n string) string {
			if r, ok := styles[bi%3][n]; ok {
				return r
			}

			return n
		}
		mn := func(real string) string {
			for m, r := range styles[bi%3] {
				if r == real {
					return m
				}
			}

			return real
		}

		expT, impT := &cache.HTTPTransfer{}, &cache.HTTPTransfer{}
		if bi%2 == 0 {
			expT.Logger, impT.Logger = sinkLogger{}, sinkLogger{}
		}
		expC, impC := map[string]Backend{}, map[string]Backend{}

		for _, n := range cfg.ExpNames {
			ek, _ := xferKinds(allNames[n] + bi)
			expC[n] = NewBackend(ek, cache.Config{Name: "e" + n})

			if bi%3 == 2 { // a name that is registered again: the later cache replaces the earlier one
				retired := NewBackend(ek, cache.Config{Name: "retired-e" + n})
				_ = retired.Write(context.Background(), []byte("retired-key"), "v1")
				expT.AddCache(rn(n), wdr(retired))
			}

			expT.AddCache(rn(n), wdr(expC[n]))
		}

		for _, n := range cfg.ImpNames {
			_, ik := xferKinds(allNames[n] + bi)
			impC[n] = NewBackend(ik, cache.Config{Name: "i" + n})

			if bi%3 == 1 {
				impT.AddCache(rn(n), wdr(NewBackend(ik, cache.Config{Name: "retired-i" + n})))
			}

			impT.AddCache(rn(n), wdr(impC[n]))
		}

		contents := func(m map[string]Backend) map[string]map[string]string {
			r := map[string]map[string]string{}

			for n, be := range m {
				r[n] = map[string]string{}

				_, _ = be.Walk(func(e Ent) error {
					mk, ok := km.ByReal[string(e.K)]
					if !ok {
						mk = fmt.Sprintf("?%x", e.K)
					}

					r[n][mk] = e.V

					return nil
				})
			}

			return r
		}

		var trace []map[string]interface{}

		nImports := 0

		for _, op := range b {
			jl := [][3]string{}

			switch op.Name {
			case "PutExp":
				_ = expC[op.N].Write(context.Background(), km.ByModel[op.K], op.V)
			case "PutImp":
				_ = impC[op.N].Write(context.Background(), km.ByModel[op.K], op.V)
			case "ExportJSONL":
				u := "http://exporter.test/jsonl"
				if op.N != "" {
					u += "?name=" + url.QueryEscape(rn(op.N))
				}

				rec := httptest.NewRecorder()
				expT.ExportJSONL().ServeHTTP(rec, httptest.NewRequest(http.MethodGet, u, nil))

				jl = [][3]string{}

				if rec.Code == http.StatusNotFound {
					jl = append(jl, [3]string{"404", "", ""})
				} else {
					for _, line := range strings.Split(strings.TrimSpace(rec.Body.String()), "\n") {
						if line == "" {
							continue
						}

						var row struct {
							Name  string      `json:"name"`
							Key   string      `json:"key"`
							Value interface{} `json:"value"`
						}

						if err := json.Unmarshal([]byte(line), &row); err != nil {
							jl = append(jl, [3]string{"?bad line", line, ""})

							continue
						}

						// keys travel as JSON strings: bytes that are not valid UTF-8 arrive as U+FFFD, so the
						// lookup goes through the same round trip
						mk := "?" + row.Key

						for m, real := range km.ByModel {
							var back string

							jb, _ := json.Marshal(string(real))
							_ = json.Unmarshal(jb, &back)

							if back == row.Key {
								mk = m
							}
						}

						val := decAny(row.Value)
						row.Name = mn(row.Name)
						if be, ok := expC[row.Name]; ok && be.Kind() == "ShardedMapOf" {
							val = decStr(fmt.Sprint(row.Value))
						}

						jl = append(jl, [3]string{row.Name, mk, val})
					}
				}
			case "Import":
				var rtlog []string

				// a type registered between two imports through the SAME transfer object: exporter and importer live in
				// this process, both hashes change together, the import must still work
				if bi%4 == 1 && nImports > 0 && os.Getenv("VERIF_NOGOBREG") == "" && nextExtra < len(xferExtraTypes) {
					cache.GobRegister(xferExtraTypes[nextExtra])
					nextExtra++
				}

				nImports++

				impT.Transport = &xferRT{h: expT.Export(), mode: op.Mode, who: rn(op.Who), frac: rng.Float64(), log: &rtlog,
					expFail: bi%2 == 1}
				if err := impT.Import(context.Background(), "http://exporter.test/dump"); err != nil {
					op.Mode = "error:" + err.Error()
				}
			}

			trace = append(trace, map[string]interface{}{"ev": "op", "op": op, "imp": contents(impC), "exp": contents(expC), "lines": jl})
		}

		_ = enc.Encode(map[string]interface{}{"b": bi, "steps": trace})
		res.Evaluations++
		res.Steps += len(b)
	}
}

type (
	xferExtra1  struct{ A int }
	xferExtra2  struct{ B []string }
	xferExtra3  struct{ C map[string]int }
	xferExtra4  struct{ D *xferExtra1 }
	xferExtra5  struct{ E [3]byte }
	xferExtra6  struct{ F float64 }
	xferExtra7  struct{ G uint16 }
	xferExtra8  struct{ H []xferExtra2 }
	xferExtra9  struct{ I bool }
	xferExtra10 struct{ J complex128 }
	xferExtra11 struct{ K map[int]string }
	xferExtra12 struct{ L string }
)

var (
	xferExtraTypes = []interface{}{xferExtra1{}, xferExtra2{}, xferExtra3{}, xferExtra4{}, xferExtra5{}, xferExtra6{},
		xferExtra7{}, xferExtra8{}, xferExtra9{}, xferExtra10{}, xferExtra11{}, xferExtra12{}}
	nextExtra int
)

// ---- types hash --------------------------------------------------------------------------------------------

type (
	hashTA struct{ A int }
	hashTB struct {
		B string
		N []int
	}
	hashTC struct {
		M map[string]hashTA
		P *hashTB
	}
	hashTD struct{ A int64 }
	hashTG string
	hashTH int32
)

// TestGobHashChild runs in a fresh process: registers the types named in VERIF_TYPES in that order, prints the hash.
func TestGobHashChild(t *testing.T) {
	spec := os.Getenv("VERIF_TYPES")
	if spec == "" && os.Getenv("VERIF_HASHCHILD") == "" {
		t.Skip("not a hash child")
	}

	// "+A,C": all values in ONE variadic GobRegister call; "A,C": one call per value.
	oneCall := strings.HasPrefix(spec, "+")

	var vals []interface{}

	for _, c := range strings.Split(strings.TrimPrefix(spec, "+"), ",") {
		switch c {
		case "A":
			vals = append(vals, hashTA{})
		case "B":
			vals = append(vals, hashTB{})
		case "C":
			vals = append(vals, hashTC{})
		case "D":
			vals = append(vals, hashTD{})
		case "E": // E and F: two DIFFERENT types that reflect prints alike ("model.User")
			vals = append(vals, modela.User{})
		case "F":
			vals = append(vals, modelb.User{})
		case "G": // named basic types
			vals = append(vals, hashTG(""))
		case "H":
			vals = append(vals, hashTH(0))
		}
	}

	if oneCall {
		cache.GobRegister(vals...)
	} else {
		for _, v := range vals {
			cache.GobRegister(v)
		}
	}

	fmt.Printf("HASH=%d\n", cache.GobTypesHash())
}

// TestGobHashOrders evaluates registration orders / multiplicities of a pool of 4 types, each in a fresh process.
func TestGobHashOrders(t *testing.T) {
	outp := os.Getenv("VERIF_TRACE_OUT")
	if outp == "" || os.Getenv("VERIF_HASH") == "" {
		t.Skip("VERIF_HASH not set")
	}

	seed := envInt("VERIF_SEED", 1)
	n := int(envInt("VERIF_N", 40))
	rng := rand.New(rand.NewSource(seed)) //nolint:gosec
	res := Result{Extra: map[string]interface{}{}}

	defer func() { mustNoErr(writeJSON(os.Getenv("VERIF_OUT"), res), "write result") }()

	f, err := os.Create(outp)
	mustNoErr(err, "trace out")

	defer f.Close()

	enc := json.NewEncoder(f)
	pool := []string{"A", "B", "C", "D", "E", "F", "G", "H"}

	var specs [][]string

	// every subset in canonical order once, then random orders with repetitions
	for m := 0; m < 16; m++ { // subsets of A-D; E and F come in below
		var s []string

		for i, p := range pool {
			if m&(1<<i) != 0 {
				s = append(s, p)
			}
		}

		specs = append(specs, s)
	}

	specs = append(specs, []string{"E"}, []string{"F"}, []string{"E", "F"}, []string{"F", "E"}, []string{"A", "F", "E"},
		[]string{"G"}, []string{"H"}, []string{"A", "G"}, []string{"G", "H"})

	for len(specs) < n {
		k := 1 + rng.Intn(6)
		s := make([]string, k)

		for i := range s {
			s[i] = pool[rng.Intn(len(pool))]
		}

		specs = append(specs, s)
	}

	for _, s := range specs {
		cmd := exec.Command(os.Args[0], "-test.run", "^TestGobHashChild$", "-test.count=1") //nolint:gosec
		spec := strings.Join(s, ",")
		if rng.Intn(2) == 0 {
			spec = "+" + spec
		}

		cmd.Env = append(os.Environ(), "VERIF_TYPES="+spec, "VERIF_HASHCHILD=1")

		b, err := cmd.CombinedOutput()
		if err != nil {
			res.Fatal = "hash child failed: " + err.Error() + " " + string(b)

			return
		}

		h := ""

		for _, line := range strings.Split(string(b), "\n") {
			if strings.HasPrefix(line, "HASH=") {
				h = strings.TrimPrefix(line, "HASH=")
			}
		}

		set := map[string]bool{}
		for _, x := range s {
			set[x] = true
		}

		var names []string
		for x := range set {
			names = append(names, x)
		}

		sort.Strings(names)

		_ = enc.Encode(map[string]interface{}{"set": "{" + strings.Join(names, "") + "}", "hash": h, "order": spec})
		res.Evaluations++
	}
}
