package harness

import (
	"context"
	"encoding/json"
	"errors"
	"fmt"
	"math/rand"
	"os"
	"runtime"
	"sort"
	"sync"
	"testing"

	"github.com/bool64/cache"
)

// invEv is one line of a free-running InvalidationIndex trace (spec/InvalidationTrace.tla).  Every field is always
// present: the TLA+ side reads records, a missing field would be an evaluation error.
type invEv struct {
	Ev   string              `json:"ev"`
	P    string              `json:"p"`    // call id (c1..) or environment operation id (e1..)
	Op   string              `json:"op"`   // AddLabels | AddCache
	Name string              `json:"name"` // cache name
	K    string              `json:"k"`
	D    string              `json:"d"`
	Ls   []string            `json:"ls"`
	C    string              `json:"c"` // ok | notfound | fault
	N    int                 `json:"n"`
	Err  string              `json:"err"`
	Cont map[string][]string `json:"cont"`
}

type invRec struct {
	mu     sync.Mutex
	events []invEv
	faults int // remaining budget of failing deletes
	rng    *rand.Rand
	rev    map[string]string // real key -> model key
}

func (r *invRec) log(e invEv) {
	if e.Ls == nil {
		e.Ls = []string{}
	}

	if e.Cont == nil {
		e.Cont = map[string][]string{}
	}

	r.events = append(r.events, e)
}

func (r *invRec) rec(e invEv) {
	r.mu.Lock()
	r.log(e)
	r.mu.Unlock()
}

// freeDeleter executes the delete on the real cache and logs it under the recorder mutex: the order of the lines is
// the order of the effects on the caches.
type freeDeleter struct {
	r     *invRec
	id    string
	inner cache.Deleter
}

func (f *freeDeleter) Delete(ctx context.Context, key []byte) error {
	runtime.Gosched()

	f.r.mu.Lock()
	defer f.r.mu.Unlock()

	p, mk := procOf(ctx), f.r.rev[string(key)]
	if mk == "" {
		mk = "?" + string(key)
	}

	if f.r.faults > 0 && f.r.rng.Intn(4) == 0 {
		f.r.faults--
		f.r.log(invEv{Ev: "delete", P: p, D: f.id, K: mk, C: "fault"})

		return tokErr{tok: "DEL"}
	}

	err := f.inner.Delete(ctx, key)

	switch {
	case err == nil:
		f.r.log(invEv{Ev: "delete", P: p, D: f.id, K: mk, C: "ok"})
	case errors.Is(err, cache.ErrNotFound):
		f.r.log(invEv{Ev: "delete", P: p, D: f.id, K: mk, C: "notfound"})
	default:
		f.r.log(invEv{Ev: "delete", P: p, D: f.id, K: mk, C: "error", Err: err.Error()})
	}

	return err
}

type invFreeOp struct {
	kind string // AddLabels | AddCache | Put | Invalidate
	id   string
	name string
	k    string
	d    string
	ls   []string
}

// TestInvFree: really concurrent AddLabels / AddCache / InvalidateByLabels (with failing deleters) on one index, a
// recovery call at quiescence; event traces for InvalidationTrace.tla.  VERIF_N runs, VERIF_TRACE_OUT, VERIF_OUT.
func TestInvFree(t *testing.T) {
	out := os.Getenv("VERIF_TRACE_OUT")
	if out == "" {
		t.Skip("VERIF_TRACE_OUT not set")
	}

	seed := envInt("VERIF_SEED", 1)
	n := int(envInt("VERIF_N", 20))
	res := Result{Extra: map[string]interface{}{}}

	defer func() { mustNoErr(writeJSON(os.Getenv("VERIF_OUT"), res), "write result") }()

	f, err := os.Create(out)
	mustNoErr(err, "trace out")

	defer f.Close()

	labels := []string{"a", "b", "c"}
	keys := []string{"k1", "k2", "k3", "k4"}
	dels := []string{"d1", "d2", "d3"}

	for b := 0; b < n; b++ {
		rng := rand.New(rand.NewSource(seed*100003 + int64(b)))
		km, err := NewKeyMap(seed*977+int64(b), false, keys)
		mustNoErr(err, "keymap")

		names := []string{"default"}
		nameOf := map[string]string{"d1": "default", "d2": "default", "d3": "default"}

		if rng.Intn(2) == 0 {
			names = append(names, "n2")
			nameOf["d3"] = "n2"

			if rng.Intn(2) == 0 {
				nameOf["d2"] = "n2"
			}
		}

		r := &invRec{rng: rand.New(rand.NewSource(seed + int64(b))), faults: rng.Intn(3), rev: map[string]string{}}
		for _, k := range keys {
			r.rev[string(km.ByModel[k])] = k
		}

		bes := map[string]Backend{}
		for i, d := range dels {
			bes[d] = NewBackend(Kinds[(i+b)%3], cache.Config{Name: d})
		}

		idx := cache.NewInvalidationIndex()
		initRegd := map[string][]string{}

		for _, nm := range names {
			initRegd[nm] = []string{}
		}

		unreg := []string{}

		for _, d := range dels {
			if d == "d1" || rng.Intn(2) == 0 {
				initRegd[nameOf[d]] = append(initRegd[nameOf[d]], d)
				idx.AddCache(nameOf[d], &freeDeleter{r: r, id: d, inner: bes[d].Raw().(cache.Deleter)})
			} else {
				unreg = append(unreg, d)
			}
		}

		envN, callN := 0, 0
		argsOf := map[string][]string{}
		procs := []string{}

		randLabels := func(max int) []string {
			ls := make([]string, 1+rng.Intn(max))
			for i := range ls {
				ls[i] = labels[rng.Intn(len(labels))]
			}

			return ls
		}

		mk := func(kind string) invFreeOp {
			o := invFreeOp{kind: kind}

			switch kind {
			case "AddLabels":
				envN++
				o.id = fmt.Sprintf("e%d", envN)
				o.name = names[rng.Intn(len(names))]
				o.k = keys[rng.Intn(len(keys))]
				o.ls = randLabels(2)
			case "AddCache":
				envN++
				o.id = fmt.Sprintf("e%d", envN)
				o.d = unreg[0]
				unreg = unreg[1:]
				o.name = nameOf[o.d]
			case "Put":
				o.d = dels[rng.Intn(len(dels))]
				o.k = keys[rng.Intn(len(keys))]
			case "Invalidate":
				callN++
				o.id = fmt.Sprintf("c%d", callN)
				o.ls = randLabels(3)
				argsOf[o.id] = o.ls
				procs = append(procs, o.id)
			}

			return o
		}

		do := func(o invFreeOp) {
			switch o.kind {
			case "AddLabels":
				r.rec(invEv{Ev: "envcall", P: o.id, Op: "AddLabels", Name: o.name, K: o.k, Ls: o.ls})
				idx.AddLabels(o.name, append([]byte(nil), km.ByModel[o.k]...), o.ls...)
				r.rec(invEv{Ev: "envret", P: o.id})
			case "AddCache":
				r.rec(invEv{Ev: "envcall", P: o.id, Op: "AddCache", Name: o.name, D: o.d})
				idx.AddCache(o.name, &freeDeleter{r: r, id: o.d, inner: bes[o.d].Raw().(cache.Deleter)})
				r.rec(invEv{Ev: "envret", P: o.id})
			case "Put":
				r.mu.Lock()
				_ = bes[o.d].Write(context.Background(), km.ByModel[o.k], "v1")
				r.log(invEv{Ev: "put", D: o.d, K: o.k})
				r.mu.Unlock()
			case "Invalidate":
				r.rec(invEv{Ev: "invcall", P: o.id, Ls: o.ls})

				e := invEv{Ev: "invret", P: o.id}

				func() {
					defer func() {
						if x := recover(); x != nil {
							e.Err = fmt.Sprintf("PANIC: %v", x)
						}
					}()

					cnt, err := idx.InvalidateByLabels(context.WithValue(context.Background(), procKey{}, o.id), o.ls...)
					e.N, e.Err = cnt, errTok(err)
				}()

				r.rec(e)
			}
		}

		// sequential preparation: some labelled keys and cache entries, so that the calls have work to do
		for _, d := range dels {
			for _, k := range keys {
				if rng.Intn(2) == 0 {
					do(invFreeOp{kind: "Put", d: d, k: k})
				}
			}
		}

		for i, np := 0, 1+rng.Intn(4); i < np; i++ {
			do(mk("AddLabels"))
		}

		// concurrent phase
		g := 2 + rng.Intn(3)
		progs := make([][]invFreeOp, g)
		inval := 0

		for i := range progs {
			for j, nops := 0, 1+rng.Intn(2); j < nops; j++ {
				x := rng.Intn(10)

				switch {
				case (x < 4 || (i == 0 && j == 0)) && inval < 2:
					inval++
					progs[i] = append(progs[i], mk("Invalidate"))
				case x < 7:
					progs[i] = append(progs[i], mk("AddLabels"))
				case x < 8 && len(unreg) > 0:
					progs[i] = append(progs[i], mk("AddCache"))
				default:
					progs[i] = append(progs[i], mk("Put"))
				}
			}
		}

		var wg sync.WaitGroup

		start := make(chan struct{})

		for i := range progs {
			wg.Add(1)

			go func(ops []invFreeOp) {
				defer wg.Done()
				<-start

				for _, o := range ops {
					do(o)
					runtime.Gosched()
				}
			}(progs[i])
		}

		close(start)
		wg.Wait()

		// recovery: deleters are healthy again, one call over all labels must leave no labelled key behind
		r.mu.Lock()
		r.faults = 0
		r.mu.Unlock()

		rec := mk("Invalidate")
		rec.ls = append([]string(nil), labels...)
		argsOf[rec.id] = rec.ls
		do(rec)

		cont := map[string][]string{}

		for d, be := range bes {
			ks := []string{}

			_, _ = be.Walk(func(e Ent) error {
				ks = append(ks, r.rev[string(e.K)])

				return nil
			})

			sort.Strings(ks)
			cont[d] = ks
		}

		r.rec(invEv{Ev: "final", Cont: cont})

		cfg := InvCfg{Names: names, Labels: labels, Keys: keys, Dels: dels, NameOfDel: nameOf, InitRegd: initRegd,
			Procs: procs, ArgsOf: argsOf}

		line, _ := json.Marshal(map[string]interface{}{"b": b, "cfg": cfg, "events": r.events, "goroutines": g})
		_, _ = f.Write(append(line, '\n'))

		res.Evaluations++
		res.Steps += len(r.events)

		for _, e := range r.events {
			if e.Ev == "delete" && e.C == "fault" {
				res.Distinct++

				break
			}
		}
	}
}
