package harness

import (
	"context"
	"sync"
)

// StatRec is a recording cache.StatsTracker: totals per (metric, cache name).
type StatRec struct {
	mu   sync.Mutex
	add  map[string]float64
	set  map[string]float64
	Hook func(ctx context.Context, metric, name string, val float64) // optional call-out observer
}

// NewStatRec creates an empty recorder.
func NewStatRec() *StatRec {
	return &StatRec{add: map[string]float64{}, set: map[string]float64{}}
}

func labelName(lv []string) string {
	for i := 0; i+1 < len(lv); i += 2 {
		if lv[i] == "name" {
			return lv[i+1]
		}
	}

	return ""
}

// Add implements cache.StatsTracker.
func (s *StatRec) Add(ctx context.Context, name string, inc float64, lv ...string) {
	n := labelName(lv)

	// The observer runs first: a goroutine parked in it has not counted its event yet.
	if s.Hook != nil {
		s.Hook(ctx, name, n, inc)
	}

	s.mu.Lock()
	s.add[name+"|"+n] += inc
	s.mu.Unlock()
}

// Set implements cache.StatsTracker.
func (s *StatRec) Set(_ context.Context, name string, abs float64, lv ...string) {
	s.mu.Lock()
	s.set[name+"|"+labelName(lv)] = abs
	s.set["#"+name+"|"+labelName(lv)]++ // number of reports
	s.mu.Unlock()
}

// Total returns the accumulated value of an incremental metric for a cache name.
func (s *StatRec) Total(metric, name string) int {
	s.mu.Lock()
	defer s.mu.Unlock()

	return int(s.add[metric+"|"+name])
}

// Gauge returns the last value of an absolute metric and how many times it was reported.
func (s *StatRec) Gauge(metric, name string) (int, int) {
	s.mu.Lock()
	defer s.mu.Unlock()

	return int(s.set[metric+"|"+name]), int(s.set["#"+metric+"|"+name])
}

// Snapshot copies all incremental totals.
func (s *StatRec) Snapshot() map[string]float64 {
	s.mu.Lock()
	defer s.mu.Unlock()

	m := make(map[string]float64, len(s.add))
	for k, v := range s.add {
		m[k] = v
	}

	return m
}
