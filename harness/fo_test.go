package harness

import (
	"context"
	"encoding/json"
	"fmt"
	"math/rand"
	"os"
	"runtime"
	"sort"
	"strings"
	"sync"
	"sync/atomic"
	"testing"
	"testing/synctest"
	"time"

	"github.com/bool64/cache"
)

type foResJ struct {
	Done bool   `json:"done"`
	V    string `json:"v"`
	Err  string `json:"err"`
}

type foSnapJ struct {
	Be    []foEntJ       `json:"be"`
	Errs  []foEntJ       `json:"errs"`
	Locks int            `json:"locks"`
	Nb    map[string]int `json:"nb"`
	Met   map[string]int `json:"met"`
	Now   int            `json:"now"`
}

type foStepJ struct {
	P    string  `json:"p"`
	Name string  `json:"name"`
	Out  string  `json:"out"`
	Arg  int     `json:"arg"`
	Pcb  string  `json:"pcb"`
	Pca  string  `json:"pca"`
	End  bool    `json:"end"`
	Res  foResJ  `json:"res"`
	Cell int     `json:"cell"`
	St   foSnapJ `json:"st"`
}

func sortFoEnts(e []foEntJ) { sort.Slice(e, func(i, j int) bool { return e[i].K < e[j].K }) }

// gateOfPc maps a model label to the gate kind the real goroutine must be parked at.
func gateOfPc(pc string) string {
	switch pc {
	case "preread", "syncread":
		return "beRead"
	case "refreshw", "bwrite":
		return "beWrite"
	case "bstart", "bend":
		return pc
	case "waitlog", "refreshlog", "buildlog", "warnlog":
		return "log:" + pc
	case "refreshstat", "failstat", "buildstat", "changestat":
		return "stat:" + pc
	}

	return "" // wait, done: not parked at a gate
}

// foRun executes one schedule against one Failover instance.
type foRun struct {
	cfg     FoCfg
	s       *sched
	fo      foInst
	stat    *StatRec
	km      *KeyMap
	u       time.Duration
	t0      time.Time
	results map[string]*foResJ
	cells   map[string]int
	ctxs    map[string]context.Context
	cancels map[string]context.CancelFunc
	drift   []string
	ops     int
	seed    int64
}

func (r *foRun) snapshot() foSnapJ {
	sn := foSnapJ{Be: []foEntJ{}, Errs: []foEntJ{}, Nb: map[string]int{}, Met: map[string]int{}}

	_, _ = r.fo.Backend().Walk(func(e Ent) error {
		sn.Be = append(sn.Be, foEntJ{K: r.s.mkey(e.K), V: e.V, E: TickOf(e.E, r.t0, r.u)})

		return nil
	})

	r.fo.ErrsWalk(func(k []byte, tok string, e int64) {
		sn.Errs = append(sn.Errs, foEntJ{K: r.s.mkey(k), V: tok, E: TickOf(e, r.t0, r.u)})
	})

	sortFoEnts(sn.Be)
	sortFoEnts(sn.Errs)

	sn.Locks = r.fo.KeyLocks()

	for k, n := range r.s.nb {
		sn.Nb[k] = int(*n)
	}

	if r.cfg.StatOn {
		sn.Met["build"] = r.stat.Total(cache.MetricBuild, foName)
		sn.Met["failed"] = r.stat.Total(cache.MetricFailed, foName)
		sn.Met["refreshed"] = r.stat.Total(cache.MetricRefreshed, foName)
		sn.Met["changed"] = r.stat.Total(cache.MetricChanged, foName)
	} else {
		sn.Met["build"], sn.Met["failed"], sn.Met["refreshed"], sn.Met["changed"] = 0, 0, 0, 0
	}

	return sn
}

func (r *foRun) startGet(p string) {
	mk := r.cfg.KeyOf[p]
	real := r.km.ByModel[mk]
	// The caller's own buffer: rewritten with ANOTHER live key's bytes as soon as Get has returned.
	buf := append([]byte(nil), real...)

	ctx := context.WithValue(context.Background(), procKey{}, p)
	ctx = context.WithValue(ctx, ctxProbe{}, p)
	ctx, cancel := context.WithDeadline(ctx, time.Now().Add(100000*time.Hour))
	r.s.mu.Lock()
	r.cancels[p] = cancel
	r.s.mu.Unlock()

	if r.cfg.Skip[p] {
		ctx = cache.WithSkipRead(ctx)
	}

	if r.cfg.HasCell[p] {
		d := time.Duration(0)
		if c := r.cfg.Cell0[p]; c != 0 {
			d = TickDur(c, r.u)
		}

		ctx = cache.WithTTL(ctx, d, false)
	}

	returned := false
	r.ctxs[p] = ctx

	ce := Event{Ev: "call", P: p, K: mk, TTL: r.cfg.Cell0[p]}
	if r.cfg.Skip[p] {
		ce.C = "skip"
	}

	if r.cfg.HasCell[p] {
		ce.N = 1
	} else {
		ce.TTL = 0
	}

	r.s.rec(ce)

	go func() {
		v, err := r.fo.Get(ctx, buf, func(bctx context.Context) (string, error) {
			return r.s.build(bctx, p, mk, func() bool { return returned })
		})

		returned = true

		r.s.mu.Lock()
		r.results[p] = &foResJ{Done: true, V: v, Err: errTok(err)}
		r.cells[p] = r.s.ttlTicks(cache.TTL(ctx))
		r.s.mu.Unlock()
		r.s.rec(Event{Ev: "ret", P: p, K: mk, V: v, Err: errTok(err), TTL: r.s.ttlTicks(cache.TTL(ctx))})

		// Adversarial caller: reuse the key buffer for another key and cancel the context at once.
		other := real
		for _, k2 := range r.cfg.Keys {
			if k2 != mk && len(r.km.ByModel[k2]) == len(real) {
				other = r.km.ByModel[k2]
			}
		}

		if string(other) == string(real) {
			for i := range buf {
				buf[i] ^= 0x5A
			}
		} else {
			copy(buf, other)
		}

		cancel()
	}()
}

// lateProbes runs after a schedule that deviated from the model: three more Gets per key, one tick apart.  What the
// deviation left behind - a result that expires too early, a failure that is remembered too long or not at all - shows
// in whether these calls build, and the monitors judge that.  On code that follows the model this never runs.
func (r *foRun) lateProbes() {
	for i := 1; i <= 3; i++ {
		time.Sleep(r.u)
		r.s.rec(Event{Ev: "tick"})

		for _, mk := range r.cfg.Keys {
			p := fmt.Sprintf("late%d-%s", i, mk)
			ctx := context.WithValue(context.WithValue(context.Background(), procKey{}, p), ctxProbe{}, p)

			r.s.rec(Event{Ev: "call", P: p, K: mk})

			go func() {
				v, err := r.fo.Get(ctx, append([]byte(nil), r.km.ByModel[mk]...), func(bctx context.Context) (string, error) {
					return r.s.build(bctx, p, mk, func() bool { return false })
				})
				r.s.rec(Event{Ev: "ret", P: p, K: mk, V: v, Err: errTok(err)})
			}()

			synctest.Wait()
			r.drain()
		}
	}
}

func (r *foRun) result(p string) foResJ {
	r.s.mu.Lock()
	defer r.s.mu.Unlock()

	if x := r.results[p]; x != nil {
		return *x
	}

	return foResJ{}
}

func (r *foRun) driftf(f string, a ...interface{}) { r.drift = append(r.drift, fmt.Sprintf(f, a...)) }

// prepare writes the initial backend / failure-cache content (first entry of the schedule) at tick 0.
func (r *foRun) prepare(init foSnapJ) {
	bg := context.Background()

	for _, e := range init.Be {
		_ = r.fo.Backend().Write(cache.WithTTL(bg, TickDur(e.E, r.u), false), r.km.ByModel[e.K], e.V)
		r.s.rec(Event{Ev: "prep", K: e.K, V: e.V, E: e.E})
	}

	for _, e := range init.Errs {
		r.fo.ErrsWrite(cache.WithTTL(bg, TickDur(e.E, r.u), false), r.km.ByModel[e.K], e.V)
		r.s.rec(Event{Ev: "preperr", K: e.K, Err: e.V, E: e.E})
	}
}

// macro-step = maximal run of entries of one process ending with end=true.
type macro struct {
	first, last foStepJ
}

func macros(b []foStepJ) []macro {
	var (
		res []macro
		cur *macro
	)

	for _, e := range b {
		if cur == nil {
			cur = &macro{first: e}
		}

		cur.last = e

		if e.End {
			res = append(res, *cur)
			cur = nil
		}
	}

	if cur != nil {
		res = append(res, *cur)
	}

	return res
}

// drain releases whatever is parked (builders succeed, no faults) until nothing moves any more.  It is adversarial:
// goroutines waiting to ENTER a builder or to reach one are released before goroutines about to LEAVE a builder, so that
// a code base that lets two builds of one key run at once shows the overlap.
func (r *foRun) drain() { r.drainUntil(false) }

// pressure is applied at the FIRST deviation from the schedule: every call that has not started yet is started and
// everything that is not about to leave a builder is let run as far as it gets, while the builders that are inside stay
// inside.  If the deviation has opened a door (a lock released early, a call that no longer waits), a second builder
// walks through it now and the monitors see the overlap.  On code that follows the model this never runs.
func (r *foRun) pressure() {
	for _, p := range r.cfg.Procs {
		r.s.mu.Lock()
		_, started := r.cancels[p]
		r.s.mu.Unlock()

		if !started {
			// one tick before each late call: a result that expires earlier than it should is found expired
			time.Sleep(r.u)
			r.s.rec(Event{Ev: "tick"})
			r.startGet(p)
			synctest.Wait()
			r.drainUntil(true)
		}
	}

	r.drainUntil(true)
}

func (r *foRun) drainUntil(keepBuilders bool) {
	for i := 0; i < 1000; i++ {
		ps := r.s.anyParked()
		if len(ps) == 0 {
			return
		}

		sort.Strings(ps)

		pick := ""

		for _, p := range ps {
			if a := r.s.parkedAt(p); a != nil && a.kind != "bend" {
				pick = p

				break
			}
		}

		if pick == "" {
			if keepBuilders {
				return
			}

			pick = ps[0]
		}

		r.s.release(pick, gcmd{ok: true})
		synctest.Wait()
	}
}

func (r *foRun) compareSnap(where string, want foSnapJ) {
	got := r.snapshot()

	sortFoEnts(want.Be)
	sortFoEnts(want.Errs)

	if fmt.Sprint(got.Be) != fmt.Sprint(want.Be) {
		r.driftf("%s: backend content %v, model %v", where, got.Be, want.Be)
	}

	if fmt.Sprint(got.Errs) != fmt.Sprint(want.Errs) {
		r.driftf("%s: failure cache %v, model %v", where, got.Errs, want.Errs)
	}

	if got.Locks != want.Locks {
		r.driftf("%s: %d key locks, model %d", where, got.Locks, want.Locks)
	}

	for k, n := range want.Nb {
		if got.Nb[k] != n {
			r.driftf("%s: %d builder invocations for %s, model %d", where, got.Nb[k], k, n)
		}
	}

	if r.cfg.StatOn {
		for k, n := range want.Met {
			if got.Met[k] != n {
				r.driftf("%s: metric %s = %d, model %d", where, k, got.Met[k], n)
			}
		}
	}
}

// exec runs the schedule in lockstep.  After the first drift the comparison stops, but the schedule keeps being
// imposed as a pure sequence of scheduling choices ("start p", "release p with this outcome", "tick", ...): steps whose
// process is not parked are skipped.  On correct code this never happens; on changed code it lands the remaining
// interleaving on whatever the code does now, and the monitors judge the recorded trace.
func (r *foRun) exec(b []foStepJ) {
	r.t0 = time.Now()

	if len(b) > 0 && b[0].Name == "Init" {
		r.prepare(b[0].St)
		b = b[1:]
	}

	drifted := false

	for i, m := range macros(b) {
		time.Sleep(Eps)
		r.ops++

		f, l := m.first, m.last
		where := fmt.Sprintf("step %d %s(%s)", i, f.Name, f.P)

		switch {
		case f.P == "":
			switch f.Name {
			case "Tick":
				time.Sleep(r.u)
				r.s.rec(Event{Ev: "tick"})
			case "ExtExpireAll":
				r.fo.Backend().ExpireAll(context.Background())
				r.s.rec(Event{Ev: "extexpire"})
			case "ExtWrite":
				k := f.Out[:strings.Index(f.Out, "#")]
				_ = r.fo.Backend().Write(context.Background(), r.km.ByModel[k], f.Out)
				r.s.rec(Event{Ev: "extwrite", K: k, V: f.Out})
			case "ExtDelete":
				_ = r.fo.Backend().Delete(context.Background(), r.km.ByModel[f.Out])
				r.s.rec(Event{Ev: "extdelete", K: f.Out})
			}
		case f.Name == "Start":
			r.s.mu.Lock()
			_, started := r.cancels[f.P]
			r.s.mu.Unlock()

			if !started { // pressure() may have started it already
				r.startGet(f.P)
			}
		case f.Name == "Wake":
			// nothing to release: the owner's close woke the waiter
		default:
			a := r.s.parkedAt(f.P)
			if a == nil || a.kind != gateOfPc(f.Pcb) {
				if !drifted {
					r.driftf("%s: process not parked at %s (is at %v)", where, gateOfPc(f.Pcb), a)
					drifted = true
				}

				if a == nil {
					continue
				}
			}

			r.s.release(f.P, gcmd{fault: f.Out == "beerr" || f.Out == "fault", ok: f.Out != "fail", same: f.Out == "same", ttl: f.Arg})
		}

		synctest.Wait()

		if drifted {
			continue
		}

		if f.P != "" {
			// Where is the process now?
			want := gateOfPc(l.Pca)
			a := r.s.parkedAt(f.P)

			got := ""
			if a != nil {
				got = a.kind
			}

			if got != want {
				r.driftf("%s: process parked at %q, model %q (%s)", where, got, want, l.Pca)
			}

			// Every third time a builder is entered: the caller's context is cancelled while the builder is still
			// running.  A synchronous build goes on under the cancelled context and its result counts like any other;
			// a background build does not even see it (detached context).
			// Every fourth time a call starts waiting for another call's build: its own context is cancelled while it
			// waits.  What it gets is still what the owner publishes (a value or an error of a builder or the backend).
			if l.Pca == "wait" && (int(r.seed)+i)%4 == 0 {
				r.s.mu.Lock()
				c := r.cancels[f.P]
				r.s.mu.Unlock()

				if c != nil {
					c()
					r.s.rec(Event{Ev: "waitcancel", P: f.P})
					synctest.Wait()
				}
			}

			if a != nil && a.kind == "bend" && f.Name != "BEnd" && (int(r.seed)+i)%3 == 0 {
				r.s.mu.Lock()
				c := r.cancels[f.P]
				r.s.mu.Unlock()

				if c != nil {
					c()
					r.s.rec(Event{Ev: "midcancel", P: f.P})
				}
			}

			if a != nil && a.kind == "beWrite" && l.Pca == "refreshw" && a.ttl != r.cfg.UpdTTL {
				r.driftf("%s: refresh write carries ttl %d, model %d", where, a.ttl, r.cfg.UpdTTL)
			}

			res := r.result(f.P)
			if res.Done != l.Res.Done {
				r.driftf("%s: Get returned=%v, model %v", where, res.Done, l.Res.Done)
			} else if res.Done {
				if res.Err != l.Res.Err || (res.Err == "" && res.V != l.Res.V) {
					r.driftf("%s: Get returned (%q, %q), model (%q, %q)", where, res.V, res.Err, l.Res.V, l.Res.Err)
				}

				if got := r.s.ttlTicks(cache.TTL(r.ctxs[f.P])); r.cfg.HasCell[f.P] && got != l.Cell {
					r.driftf("%s: caller's TTL cell is %d, model %d", where, got, l.Cell)
				}
			}
		}

		r.compareSnap(where, l.St)

		if len(r.drift) > 0 {
			drifted = true

			r.pressure()
		}
	}
}

// followUp: after quiescence every key must be buildable again (C04 black-box oracle).
func (r *foRun) followUp() {
	r.s.steer = false

	time.Sleep(time.Duration(r.cfg.FailTTL+r.cfg.UpdTTL+r.cfg.BeTTL+3) * r.u)
	r.fo.Backend().DeleteAll(context.Background())
	r.s.rec(Event{Ev: "reset"})

	for _, k := range r.cfg.Keys {
		p := "fu-" + k
		before := *r.s.nb[k]
		ctx := context.WithValue(context.WithValue(context.Background(), procKey{}, p), ctxProbe{}, p)
		done := false

		var (
			v   string
			err error
		)

		r.s.rec(Event{Ev: "call", P: p, K: k})

		go func() {
			v, err = r.fo.Get(ctx, append([]byte(nil), r.km.ByModel[k]...), func(bctx context.Context) (string, error) {
				return r.s.build(bctx, p, k, func() bool { return false })
			})
			done = true
		}()

		synctest.Wait()

		ev := Event{Ev: "followup", P: p, K: k, V: v, Err: errTok(err), N: int(*r.s.nb[k] - before)}
		if !done {
			ev.C = "blocked"
		} else {
			ev.C = "returned"

			rr := r.fo.Backend().Read(context.Background(), r.km.ByModel[k])
			ev.Note = rr.Class + ":" + rr.V

		}

		r.s.rec(ev)
	}
}

type foOut struct {
	Cfg    FoCfg    `json:"cfg"`
	B      int      `json:"b"`
	Drift  []string `json:"drift"`
	Events []Event  `json:"events"`
	Panic  string   `json:"panic,omitempty"`
}

func runFoSchedule(t *testing.T, cfg FoCfg, bi int, b []foStepJ, seed int64) (out foOut) {
	out = foOut{Cfg: cfg, B: bi}

	km, err := NewKeyMap(seed, false, nil)
	mustNoErr(err, "keymap")

	// Equal-length concrete keys so that the caller can overwrite its buffer with another live key.
	foKeys(cfg, km, seed, 0)

	s := newSched(km, cfg.unit(), cfg.Keys)
	s.steer = true
	stat := NewStatRec()
	r := &foRun{cfg: cfg, s: s, stat: stat, km: km, u: cfg.unit(), results: map[string]*foResJ{}, seed: seed + int64(bi),
		cells: map[string]int{}, ctxs: map[string]context.Context{}, cancels: map[string]context.CancelFunc{}}
	r.fo = newFo(cfg, s, stat, func() time.Time { return r.t0 })
	s.onFail = func(p string) {
		s.mu.Lock()
		c := r.cancels[p]
		s.mu.Unlock()

		if c != nil {
			c()
		}
	}

	defer func() {
		if p := recover(); p != nil {
			out.Panic = fmt.Sprint(p)
			s.rec(Event{Ev: "panic", Note: out.Panic})
			out.Events = s.events
			out.Drift = r.drift
		}
	}()

	synctest.Test(t, func(t *testing.T) {
		r.exec(b)

		if len(r.drift) > 0 {
			r.drain()
			r.s.checkHanded()
			r.lateProbes()
		}

		// Quiescence: nothing parked, every Get returned.
		synctest.Wait()

		if cfg.StatOn {
			s.rec(Event{Ev: "metric", C: "build", N: stat.Total(cache.MetricBuild, foName)})
			s.rec(Event{Ev: "metric", C: "failed", N: stat.Total(cache.MetricFailed, foName)})
			if cfg.Backend != "Default" { // stale re-stores are counted from the backend wrapper's events: none for that backend
				s.rec(Event{Ev: "metric", C: "refreshed", N: stat.Total(cache.MetricRefreshed, foName)})
			}
		}

		if cfg.Backend != "Default" && cfg.Backend != "NoOp" { // backends that report no metrics under the name "be"
			s.rec(Event{Ev: "metric", C: "be_reads", N: stat.Total(cache.MetricHit, "be") +
				stat.Total(cache.MetricMiss, "be") + stat.Total(cache.MetricExpired, "be")})
			s.rec(Event{Ev: "metric", C: "be_write", N: stat.Total(cache.MetricWrite, "be")})
		}

		q := Event{Ev: "quiesce", N: r.fo.KeyLocks()}
		for _, p := range cfg.Procs {
			if _, started := r.cancels[p]; started && !r.result(p).Done {
				q.Note += "blocked:" + p + ";"
			}
		}

		if ps := r.s.anyParked(); len(ps) > 0 {
			q.Note += fmt.Sprintf("parked:%v;", ps)
		}

		s.rec(q)

		if q.Note == "" && cfg.Backend != "Default" { // the follow-up has to empty the backend, which Failover owns here
			r.followUp()
		}

		// Let goroutines that are still blocked (only under a defect) go, so that the bubble can end.
		for _, c := range r.cancels {
			c()
		}
	})

	out.Events = s.events
	out.Drift = r.drift

	return out
}

// TestFoReplay: VERIF_CFG (FoCfg json), VERIF_IN (schedules ndjson), VERIF_OUT (Result), VERIF_TRACE_OUT (events ndjson).
func TestFoReplay(t *testing.T) {
	in := os.Getenv("VERIF_IN")
	if in == "" {
		t.Skip("VERIF_IN not set")
	}

	var cfg FoCfg
	mustNoErr(readJSON(os.Getenv("VERIF_CFG"), &cfg), "read cfg")

	seed := envInt("VERIF_SEED", 1)
	res := Result{Extra: map[string]interface{}{}}

	defer func() { mustNoErr(writeJSON(os.Getenv("VERIF_OUT"), res), "write result") }()

	var behs [][]foStepJ

	err := readLines(in, func(line []byte) error {
		var b []foStepJ
		if err := json.Unmarshal(line, &b); err != nil {
			return err
		}

		behs = append(behs, b)

		return nil
	})
	if err != nil {
		res.Fatal = "load schedules: " + err.Error()

		return
	}

	traceOut, err := os.Create(os.Getenv("VERIF_TRACE_OUT"))
	mustNoErr(err, "trace out")

	defer traceOut.Close()

	driftN := 0

	for bi, b := range behs {
		out := runFoSchedule(t, cfg, bi, b, seed+int64(bi))
		res.Evaluations++
		res.Steps += len(b)

		if len(out.Drift) == 0 && out.Panic == "" {
			res.Lockstep++
		} else {
			driftN++

			if len(res.Samples) < 3 {
				res.Samples = append(res.Samples, map[string]interface{}{"drift": out.Drift, "panic": out.Panic, "b": bi})
			}
		}

		line, _ := json.Marshal(out)
		_, _ = traceOut.Write(append(line, '\n'))
	}

	res.Extra["drift"] = driftN
}

// runFoWalk drives one Failover instance by a seeded random walk over the code's own gate tree: at every step it either
// starts another Get, releases one parked goroutine (with a random builder outcome / injected fault within the budgets of
// the configuration), advances the virtual clock or performs an external backend operation.  Goroutines about to LEAVE a
// builder are released reluctantly, so that builds stay in flight while other callers arrive.  No model is followed:
// the recorded trace is judged by the TLC monitors.
func runFoWalk(t *testing.T, cfg FoCfg, wi int, seed int64, maxFaults, maxFails, maxNow int, envOps bool) (out foOut) {
	out = foOut{Cfg: cfg, B: wi}
	rng := rand.New(rand.NewSource(seed)) //nolint:gosec

	km, err := NewKeyMap(seed, false, nil)
	mustNoErr(err, "keymap")

	foKeys(cfg, km, seed, 0)

	s := newSched(km, cfg.unit(), cfg.Keys)
	s.steer = true
	stat := NewStatRec()
	r := &foRun{cfg: cfg, s: s, stat: stat, km: km, u: cfg.unit(), results: map[string]*foResJ{}, seed: seed + int64(wi),
		cells: map[string]int{}, ctxs: map[string]context.Context{}, cancels: map[string]context.CancelFunc{}}
	r.fo = newFo(cfg, s, stat, func() time.Time { return r.t0 })
	s.onFail = func(p string) {
		s.mu.Lock()
		c := r.cancels[p]
		s.mu.Unlock()

		if c != nil {
			c()
		}
	}

	defer func() {
		if p := recover(); p != nil {
			out.Panic = fmt.Sprint(p)
			s.rec(Event{Ev: "panic", Note: out.Panic})
			out.Events = s.events
		}
	}()

	synctest.Test(t, func(t *testing.T) {
		r.t0 = time.Now()

		init := foSnapJ{}
		for k, e := range cfg.InitBe {
			if e != nil {
				init.Be = append(init.Be, foEntJ{K: k, V: e.V, E: e.E})
			}
		}

		for k, e := range cfg.InitErrs {
			if e != nil {
				init.Errs = append(init.Errs, foEntJ{K: k, V: e.V, E: e.E})
			}
		}

		r.prepare(init)

		pending := append([]string(nil), cfg.Procs...)
		rng.Shuffle(len(pending), func(i, j int) { pending[i], pending[j] = pending[j], pending[i] })

		faults, fails, now, xw := 0, 0, 0, 0

		for step := 0; step < 80; step++ {
			time.Sleep(Eps)

			parked := s.anyParked()
			sort.Strings(parked)

			if len(pending) == 0 && len(parked) == 0 {
				break
			}

			// Candidates, weighted.
			type cand struct {
				kind string
				p    string
				w    int
			}

			var cs []cand

			if len(pending) > 0 {
				cs = append(cs, cand{"start", pending[0], 3})
			}

			for _, p := range parked {
				w := 4
				if a := s.parkedAt(p); a != nil && a.kind == "bend" {
					w = 1
				}

				cs = append(cs, cand{"release", p, w})
			}

			if now < maxNow {
				cs = append(cs, cand{"tick", "", 2})
			}

			if envOps {
				cs = append(cs, cand{"ext", "", 1})
			}

			tot := 0
			for _, c := range cs {
				tot += c.w
			}

			x := rng.Intn(tot)

			var ch cand

			for _, c := range cs {
				if x < c.w {
					ch = c

					break
				}

				x -= c.w
			}

			switch ch.kind {
			case "start":
				pending = pending[1:]
				r.startGet(ch.p)
			case "release":
				a := s.parkedAt(ch.p)
				c := gcmd{ok: true}

				switch a.kind {
				case "bend":
					if fails < maxFails && rng.Intn(3) == 0 {
						c.ok = false
						fails++
					}

					c.ttl = []int{0, 0, 1, 3}[rng.Intn(4)]

					s.mu.Lock()
					_, hasExp := s.lastExp[ch.p]
					s.mu.Unlock()

					if c.ok && cfg.Mutability && hasExp && rng.Intn(3) == 0 {
						c.same = true
					}
				case "beRead", "beWrite":
					if faults < maxFaults && rng.Intn(5) == 0 {
						c.fault = true
						faults++
					}
				}

				s.release(ch.p, c)
			case "tick":
				now++

				time.Sleep(r.u)
				s.rec(Event{Ev: "tick"})
			case "ext":
				k := cfg.Keys[rng.Intn(len(cfg.Keys))]

				switch rng.Intn(3) {
				case 0:
					r.fo.Backend().ExpireAll(context.Background())
					s.rec(Event{Ev: "extexpire"})
				case 1:
					_ = r.fo.Backend().Delete(context.Background(), km.ByModel[k])
					s.rec(Event{Ev: "extdelete", K: k})
				default:
					xw++
					v := fmt.Sprintf("%s#x%d", k, xw)
					_ = r.fo.Backend().Write(context.Background(), km.ByModel[k], v)
					s.rec(Event{Ev: "extwrite", K: k, V: v})
				}
			}

			synctest.Wait()
		}

		r.drain()
		r.s.checkHanded()
		synctest.Wait()

		if cfg.StatOn {
			s.rec(Event{Ev: "metric", C: "build", N: stat.Total(cache.MetricBuild, foName)})
			s.rec(Event{Ev: "metric", C: "failed", N: stat.Total(cache.MetricFailed, foName)})
			if cfg.Backend != "Default" { // stale re-stores are counted from the backend wrapper's events: none for that backend
				s.rec(Event{Ev: "metric", C: "refreshed", N: stat.Total(cache.MetricRefreshed, foName)})
			}
		}

		if cfg.Backend != "Default" && cfg.Backend != "NoOp" { // backends that report no metrics under the name "be"
			s.rec(Event{Ev: "metric", C: "be_reads", N: stat.Total(cache.MetricHit, "be") +
				stat.Total(cache.MetricMiss, "be") + stat.Total(cache.MetricExpired, "be")})
			s.rec(Event{Ev: "metric", C: "be_write", N: stat.Total(cache.MetricWrite, "be")})
		}

		q := Event{Ev: "quiesce", N: r.fo.KeyLocks()}
		for _, p := range cfg.Procs {
			if _, started := r.cancels[p]; started && !r.result(p).Done {
				q.Note += "blocked:" + p + ";"
			}
		}

		if ps := s.anyParked(); len(ps) > 0 {
			q.Note += fmt.Sprintf("parked:%v;", ps)
		}

		s.rec(q)

		if q.Note == "" && cfg.Backend != "Default" { // the follow-up has to empty the backend, which Failover owns here
			r.followUp()
		}

		for _, c := range r.cancels {
			c()
		}
	})

	out.Events = s.events

	return out
}

// TestFoWalk: VERIF_CFG (FoCfg + budgets), VERIF_N, VERIF_OUT, VERIF_TRACE_OUT, VERIF_SEED.
func TestFoWalk(t *testing.T) {
	cfgp := os.Getenv("VERIF_CFG")
	if cfgp == "" || os.Getenv("VERIF_WALK") == "" {
		t.Skip("VERIF_WALK not set")
	}

	var cfg FoCfg
	mustNoErr(readJSON(cfgp, &cfg), "read cfg")

	var bud struct {
		MaxFaults int  `json:"MaxFaults"`
		MaxFails  int  `json:"MaxFails"`
		MaxNow    int  `json:"MaxNow"`
		EnvOps    bool `json:"EnvOps"`
	}

	mustNoErr(readJSON(cfgp, &bud), "read budgets")

	seed := envInt("VERIF_SEED", 1)
	n := int(envInt("VERIF_N", 50))
	res := Result{Extra: map[string]interface{}{}}

	defer func() { mustNoErr(writeJSON(os.Getenv("VERIF_OUT"), res), "write result") }()

	traceOut, err := os.Create(os.Getenv("VERIF_TRACE_OUT"))
	mustNoErr(err, "trace out")

	defer traceOut.Close()

	for wi := 0; wi < n; wi++ {
		out := runFoWalk(t, cfg, wi, seed*100003+int64(wi), bud.MaxFaults, bud.MaxFails, bud.MaxNow, bud.EnvOps)
		res.Evaluations++
		res.Steps += len(out.Events)

		line, _ := json.Marshal(out)
		_, _ = traceOut.Write(append(line, '\n'))
	}
}

// TestFoFree: FREE-RUNNING, really concurrent Gets (real scheduler, real clock, no steering): 4-12 goroutines x 3-8 Gets
// on 2 keys of one Failover / FailoverOf over a real backend, builders that yield, fail or succeed at random, injected
// backend faults, external ExpireAll / Delete in between.  The recorded event traces are judged by the monitors whose
// guards are sound for really concurrent executions (C01, C02, C04, C18); nothing here depends on time passing.
func TestFoFree(t *testing.T) {
	outp := os.Getenv("VERIF_TRACE_OUT")
	if outp == "" || os.Getenv("VERIF_FOFREE") == "" {
		t.Skip("VERIF_FOFREE not set")
	}

	seed := envInt("VERIF_SEED", 1)
	n := int(envInt("VERIF_N", 40))
	res := Result{Extra: map[string]interface{}{}}

	defer func() { mustNoErr(writeJSON(os.Getenv("VERIF_OUT"), res), "write result") }()

	f, err := os.Create(outp)
	mustNoErr(err, "trace out")

	defer f.Close()

	enc := json.NewEncoder(f)

	for ri := 0; ri < n; ri++ {
		rng := rand.New(rand.NewSource(seed*50021 + int64(ri))) //nolint:gosec
		small := os.Getenv("VERIF_FOSMALL") != ""               // small runs for validation against the implementation model (FailoverTrace)
		cfg := FoCfg{
			Keys: []string{"k1", "k2"}, SyncUpdate: rng.Intn(2) == 0, SyncRead: rng.Intn(2) == 0, FailHard: rng.Intn(3) == 0,
			MaxStale: []int{0, 2}[rng.Intn(2)], FailTTL: []int{1, -1}[rng.Intn(2)], UpdTTL: 1, BeTTL: 2, Generic: rng.Intn(3) == 0,
			StatOn: true, LogOn: rng.Intn(3) == 0, Backend: []string{"ShardedMap", "SyncMap"}[rng.Intn(2)],
			Skip: map[string]bool{}, HasCell: map[string]bool{}, Cell0: map[string]int{},
		}
		cfg.OfAny = cfg.Generic && ri%2 == 1

		km, err := NewKeyMap(seed+int64(ri), false, nil)
		mustNoErr(err, "keymap")

		cfg.Collide = ri%3 == 0 && cfg.FailTTL == -1 // the failure cache is a ShardedMap: colliding keys would share its slot
		foKeys(cfg, km, seed, int64(ri))

		if small {
			cfg.StatOn, cfg.LogOn = false, false
		}

		s := newSched(km, cfg.unit(), cfg.Keys)
		s.steer = false
		s.yield = func() { runtime.Gosched() }

		if small {
			s.serial = &sync.Mutex{}
		}

		var cmdMu sync.Mutex

		cmdRng := rand.New(rand.NewSource(seed + int64(ri)*977)) //nolint:gosec
		s.freeCmd = func(kind string) gcmd {
			cmdMu.Lock()
			defer cmdMu.Unlock()

			c := gcmd{ok: true}

			switch kind {
			case "bend":
				c.ok = cmdRng.Intn(5) != 0
				if cmdRng.Intn(4) == 0 {
					time.Sleep(time.Duration(cmdRng.Intn(200)) * time.Microsecond)
				}
			case "beRead", "beWrite":
				c.fault = cmdRng.Intn(25) == 0
			}

			return c
		}

		stat := NewStatRec()
		t0 := time.Now()
		fo := newFo(cfg, s, stat, func() time.Time { return t0 })
		r := &foRun{cfg: cfg, s: s, stat: stat, km: km, u: cfg.unit(), fo: fo, t0: t0}

		// prepared content: stale / too stale / fresh / absent per key
		init := foSnapJ{}
		for _, k := range cfg.Keys {
			switch rng.Intn(4) {
			case 0:
				init.Be = append(init.Be, foEntJ{K: k, V: k + "#0", E: 0})
			case 1:
				init.Be = append(init.Be, foEntJ{K: k, V: k + "#0", E: -4})
			case 2:
				init.Be = append(init.Be, foEntJ{K: k, V: k + "#0", E: 2})
			}
		}

		r.prepare(init)

		G := 4 + rng.Intn(9)
		if small {
			G = 2 + rng.Intn(3)
		}

		var wg sync.WaitGroup

		seeds := make([]int64, G)
		for g := range seeds {
			seeds[g] = rng.Int63()
		}

		for g := 0; g < G; g++ {
			wg.Add(1)

			go func(g int) {
				defer wg.Done()

				gr := rand.New(rand.NewSource(seeds[g])) //nolint:gosec

				gets := 3 + gr.Intn(6)
				if small {
					gets = 1 + gr.Intn(3)
				}

				for i := 0; i < gets; i++ {
					p := fmt.Sprintf("g%d.%d", g, i)
					mk := cfg.Keys[gr.Intn(2)]
					buf := append([]byte(nil), km.ByModel[mk]...)

					ctx := context.WithValue(context.WithValue(context.Background(), procKey{}, p), ctxProbe{}, p)
					ctx, cancel := context.WithCancel(ctx)

					ce := Event{Ev: "call", P: p, K: mk}
					if gr.Intn(8) == 0 {
						ctx = cache.WithSkipRead(ctx)
						ce.C = "skip"
					}

					s.rec(ce)

					var returned atomic.Bool

					v, err := fo.Get(ctx, buf, func(bctx context.Context) (string, error) {
						return s.build(bctx, p, mk, returned.Load)
					})
					returned.Store(true)
					s.rec(Event{Ev: "ret", P: p, K: mk, V: v, Err: errTok(err)})

					// caller reuses its buffer and cancels at once
					other := km.ByModel[cfg.Keys[0]]
					if mk == cfg.Keys[0] {
						other = km.ByModel[cfg.Keys[1]]
					}

					copy(buf, other)
					cancel()

					if gr.Intn(10) == 0 {
						if s.serial != nil {
							s.serial.Lock() // effect and log line in one critical section, like the wrapper's operations
						}

						fo.Backend().ExpireAll(context.Background())
						s.rec(Event{Ev: "extexpire"})

						if s.serial != nil {
							s.serial.Unlock()
						}
					}
				}
			}(g)
		}

		// watchdog: a Get that never returns must not hang the harness.  "No event at all for two minutes while Gets
		// are outstanding" is far beyond anything load explains (every step of a Get is microseconds of work).
		allDone := make(chan struct{})

		go func() {
			wg.Wait()
			close(allDone)
		}()

		stuck := false
		lastN, lastAt := int64(-1), time.Now()

	waitLoop:
		for {
			select {
			case <-allDone:
				break waitLoop
			case <-time.After(200 * time.Millisecond):
				s.mu.Lock()
				n := s.seq
				s.mu.Unlock()

				if n != lastN {
					lastN, lastAt = n, time.Now()
				} else if time.Since(lastAt) > 2*time.Minute {
					stuck = true

					break waitLoop
				}
			}
		}

		if stuck {
			s.rec(Event{Ev: "stuck", N: fo.KeyLocks()})
			s.mu.Lock()
			evs := append([]Event(nil), s.events...)
			s.mu.Unlock()
			_ = enc.Encode(foOut{Cfg: cfg, B: ri, Events: evs})
			res.Evaluations++
			res.Extra["stuck_run"] = ri

			return // goroutines of this run are lost: no further runs in this process
		}

		// background builds
		for i := 0; i < 30000 && fo.KeyLocks() != 0; i++ { // up to 30 s on an overloaded machine; normally microseconds
			time.Sleep(time.Millisecond)
		}

		s.rec(Event{Ev: "metric", C: "build", N: stat.Total(cache.MetricBuild, foName)})
		s.rec(Event{Ev: "metric", C: "failed", N: stat.Total(cache.MetricFailed, foName)})
		s.checkHanded()
		s.rec(Event{Ev: "quiesce", N: fo.KeyLocks()})

		// follow-up without waiting for TTLs: both caches emptied
		fo.Backend().DeleteAll(context.Background())
		fo.ErrsDeleteAll()
		s.rec(Event{Ev: "reset"})
		s.freeCmd = nil

		for _, k := range cfg.Keys {
			p := "fu-" + k
			before := *s.nb[k]
			ctx := context.WithValue(context.WithValue(context.Background(), procKey{}, p), ctxProbe{}, p)

			s.rec(Event{Ev: "call", P: p, K: k})

			type gr struct {
				v   string
				err error
			}

			ch := make(chan gr, 1)

			go func() {
				v, err := fo.Get(ctx, append([]byte(nil), km.ByModel[k]...), func(bctx context.Context) (string, error) {
					return s.build(bctx, p, k, func() bool { return false })
				})
				ch <- gr{v, err}
			}()

			ev := Event{Ev: "followup", P: p, K: k}

			select {
			case x := <-ch:
				ev.C, ev.V, ev.Err, ev.N = "returned", x.v, errTok(x.err), int(*s.nb[k]-before)
				rr := fo.Backend().Read(context.Background(), km.ByModel[k])
				ev.Note = rr.Class + ":" + rr.V
			case <-time.After(60 * time.Second): // generous: a Get that is not blocked returns in microseconds
				ev.C = "blocked"
			}

			s.rec(ev)
		}

		_ = enc.Encode(foOut{Cfg: cfg, B: ri, Events: s.events})
		res.Evaluations++
		res.Steps += len(s.events)
	}
}

// TestTTLCell enumerates WithTTL / TTL sequences exhaustively over a small grid (values in units of a second, both
// signs and zero; 0-3 hints; with and without an existing cell; both updateExisting modes) for TTLCellTrace.tla.
func TestTTLCell(t *testing.T) {
	outp := os.Getenv("VERIF_TRACE_OUT")
	if outp == "" || os.Getenv("VERIF_TTLCELL") == "" {
		t.Skip("VERIF_TTLCELL not set")
	}

	res := Result{Extra: map[string]interface{}{}}

	defer func() { mustNoErr(writeJSON(os.Getenv("VERIF_OUT"), res), "write result") }()

	f, err := os.Create(outp)
	mustNoErr(err, "trace out")

	defer f.Close()

	enc := json.NewEncoder(f)
	vals := []int{-2, -1, 0, 1, 2, 3}

	var seqs [][]int

	seqs = append(seqs, []int{})

	for _, a := range vals {
		seqs = append(seqs, []int{a})

		for _, b := range vals {
			seqs = append(seqs, []int{a, b})

			for _, c := range []int{-1, 0, 2} {
				seqs = append(seqs, []int{a, b, c})
			}
		}
	}

	for _, has := range []bool{false, true} {
		for _, c := range vals {
			if !has && c != 0 {
				continue
			}

			for _, upd := range []bool{false, true} {
				for _, hs := range seqs {
					ctx := context.Background()
					if has {
						ctx = cache.WithTTL(ctx, time.Duration(c)*time.Second, false)
					}

					last := ctx
					for _, h := range hs {
						last = cache.WithTTL(ctx, time.Duration(h)*time.Second, upd)
					}

					_ = enc.Encode(map[string]interface{}{"has": has, "c": c, "upd": upd, "hints": append([]int{}, hs...),
						"got": int(cache.TTL(ctx) / time.Second), "fresh": int(cache.TTL(last) / time.Second)})
					res.Evaluations++
				}
			}
		}
	}
}

// TestFoBurst: MANY keys in flight at once (free running, real scheduler): 1040 distinct keys are being built while a
// background update of key ka and a synchronous build of key kb are in flight; the burst drains, the background update
// finishes, then another Get of kb arrives while kb's builder is still running.  Recorded like TestFoFree (builder
// entry / exit, call / ret, quiescence probe) for the FoMon monitors.
func TestFoBurst(t *testing.T) {
	outp := os.Getenv("VERIF_TRACE_OUT")
	if outp == "" || os.Getenv("VERIF_FOBURST") == "" {
		t.Skip("VERIF_FOBURST not set")
	}

	seed := envInt("VERIF_SEED", 1)
	n := int(envInt("VERIF_N", 4))
	res := Result{Extra: map[string]interface{}{}}

	defer func() { mustNoErr(writeJSON(os.Getenv("VERIF_OUT"), res), "write result") }()

	f, err := os.Create(outp)
	mustNoErr(err, "trace out")

	defer f.Close()

	enc := json.NewEncoder(f)

	for ri := 0; ri < n; ri++ {
		const K = 1040 // more than 1024 keys locked at once

		keys := []string{"ka", "kb"}
		for i := 0; i < K; i++ {
			keys = append(keys, fmt.Sprintf("m%04d", i))
		}

		cfg := FoCfg{Keys: keys, SyncUpdate: false, SyncRead: ri%2 == 1, FailTTL: []int{1, -1}[ri%2], UpdTTL: 1, BeTTL: 2,
			Generic: ri%4 >= 2, Backend: "ShardedMap", StatOn: false, LogOn: false,
			Skip: map[string]bool{}, HasCell: map[string]bool{}, Cell0: map[string]int{}}

		km, err := NewKeyMap(seed+int64(ri), false, nil)
		mustNoErr(err, "keymap")

		for i, k := range keys {
			real := []byte(fmt.Sprintf("burst-%05d-%04x", i, (seed*7919+int64(ri)*31)&0xffff))
			km.ByModel[k] = real
			km.ByReal[string(real)] = k
		}

		s := newSched(km, cfg.unit(), keys)
		s.steer = false
		stat := NewStatRec()
		t0 := time.Now()
		fo := newFo(cfg, s, stat, func() time.Time { return t0 })
		r := &foRun{cfg: cfg, s: s, stat: stat, km: km, u: cfg.unit(), fo: fo, t0: t0}

		r.prepare(foSnapJ{Be: []foEntJ{{K: "ka", V: "ka#0", E: 0}}})

		var (
			inside  int64
			gateA   = make(chan struct{})
			gateB   = make(chan struct{})
			gateM   = make(chan struct{})
			wg      sync.WaitGroup
			callSeq int64
		)

		get := func(mk string) {
			defer wg.Done()

			p := fmt.Sprintf("%s.%d", mk, atomic.AddInt64(&callSeq, 1))
			ctx := context.WithValue(context.WithValue(context.Background(), procKey{}, p), ctxProbe{}, p)

			s.rec(Event{Ev: "call", P: p, K: mk})

			v, err := fo.Get(ctx, append([]byte(nil), km.ByModel[mk]...), func(bctx context.Context) (string, error) {
				nb := int(atomic.AddInt64(s.nb[mk], 1))
				val := fmt.Sprintf("%s#%d", mk, nb)
				s.rec(Event{Ev: "benter", P: p, K: mk, N: nb, V: val})
				atomic.AddInt64(&inside, 1)

				switch mk {
				case "ka":
					<-gateA
				case "kb":
					<-gateB
				default:
					<-gateM
				}

				atomic.AddInt64(&inside, -1)
				s.rec(Event{Ev: "bexit", P: p, K: mk, N: nb, V: val, C: "ok"})

				return val, nil
			})

			s.rec(Event{Ev: "ret", P: p, K: mk, V: v, Err: errTok(err)})
		}

		waitFor := func(cond func() bool) bool {
			for i := 0; i < 60000; i++ { // up to a minute on an overloaded machine
				if cond() {
					return true
				}

				time.Sleep(time.Millisecond)
			}

			return false
		}

		wg.Add(2 + K)

		go get("ka")
		go get("kb")

		for i := 0; i < K; i++ {
			go get(keys[2+i])
		}

		ok := waitFor(func() bool { return atomic.LoadInt64(&inside) == K+2 && fo.KeyLocks() == K+2 })
		res.Extra[fmt.Sprintf("burst_%d_all_inside", ri)] = ok

		// while ALL builders are inside: second Gets for keys across the whole burst (early and late arrivals alike);
		// each of them finds its key being built and waits
		for i := 0; i < K; i += 4 { // every fourth key: the few keys that arrived last are among them
			wg.Add(1)

			go get(keys[2+i])
		}

		time.Sleep(20 * time.Millisecond)

		close(gateM) // the burst drains
		ok = waitFor(func() bool { return fo.KeyLocks() == 2 })

		close(gateA) // the background update finishes first
		ok = ok && waitFor(func() bool { return fo.KeyLocks() == 1 })
		res.Extra[fmt.Sprintf("burst_%d_drained", ri)] = ok

		// another Get of kb while its builder is still running: it has to wait for that build
		wg.Add(1)

		go get("kb")

		time.Sleep(30 * time.Millisecond)
		close(gateB)
		wg.Wait()

		waitFor(func() bool { return fo.KeyLocks() == 0 })
		s.rec(Event{Ev: "quiesce", N: fo.KeyLocks()})

		s.mu.Lock()
		evs := append([]Event(nil), s.events...)
		s.mu.Unlock()

		_ = enc.Encode(foOut{Cfg: cfg, B: ri, Events: evs})
		res.Evaluations++
		res.Steps += len(evs)
	}
}
