package harness

import (
	"bytes"
	"context"
	"errors"
	"fmt"
	"io"
	"os"
	"strings"
	"sync/atomic"
	"time"

	"github.com/bool64/cache"
)

// Ent is a raw entry as reported by Walk.
type Ent struct {
	K []byte
	V string // model value
	E int64  // raw expiry, ns since epoch, 0 = never
	C int64  // raw usage counter
	// EAt is what Entry.ExpireAt() reported.
	EAt time.Time
}

// ReadRes is a classified Read result.
type ReadRes struct {
	Class string // hit | notfound | expired | error
	V     string
	EAt   time.Time // ExpiredAt() of an expired result
	Err   error
}

// Backend is a uniform view of the three in-memory backends over model values.
type Backend interface {
	Kind() string
	Write(ctx context.Context, key []byte, v string) error
	Read(ctx context.Context, key []byte) ReadRes
	Store(key []byte, v string)
	Load(key []byte) (string, bool)
	Delete(ctx context.Context, key []byte) error
	ExpireAll(ctx context.Context)
	DeleteAll(ctx context.Context)
	Len() int
	Walk(fn func(e Ent) error) (int, error)
	Cleanup()
	Dump(w io.Writer) (int, error)
	Restore(r io.Reader) (int, error)
	Index() *cache.InvalidationIndex
	Raw() interface{}
}

// Kinds lists the backend implementations.
var Kinds = []string{"ShardedMap", "SyncMap", "ShardedMapOf"}

// NewBackend constructs a backend of the given kind.
func NewBackend(kind string, cfg cache.Config) Backend {
	switch kind {
	case "ShardedMap":
		return &shardedAd{c: cache.NewShardedMap(cfg.Use)}
	case "SyncMap":
		return &syncAd{c: cache.NewSyncMap(cfg.Use)}
	case "ShardedMapOf":
		return &ofAd{c: cache.NewShardedMapOf[string](cfg.Use)}
	}

	panic("unknown backend kind " + kind)
}

// Pt is a gob-registered struct value ("pt" populated, "zero" its zero value).
type Pt struct {
	X int
	S string
	L []string
}

func init() { //nolint:gochecknoinits
	// VERIF_NOGOBREG: a process whose types hash stays zero (C14: exporter without registered types).
	if os.Getenv("VERIF_NOGOBREG") == "" {
		cache.GobRegister(Pt{})
	}
}

func encAny(v string) interface{} {
	switch v {
	case "nil":
		return nil
	case "pt":
		return Pt{X: 7, S: "seven", L: []string{"a", "b"}}
	case "zero":
		return Pt{}
	case "big":
		return bigVal
	}

	return v
}

// bigVal: a value whose gob encoding is larger than common buffer sizes (4 KiB, 8 KiB).
var bigVal = "BIG" + strings.Repeat("0123456789abcdef", 600)

func decAny(v interface{}) string {
	if v == nil {
		return "nil"
	}

	if s, ok := v.(string); ok {
		if s == bigVal {
			return "big"
		}

		return s
	}

	if p, ok := v.(Pt); ok {
		if p.X == 7 && p.S == "seven" && len(p.L) == 2 && p.L[0] == "a" && p.L[1] == "b" {
			return "pt"
		}

		if p.X == 0 && p.S == "" && len(p.L) == 0 {
			return "zero"
		}
	}

	return fmt.Sprintf("?%#v", v)
}

func encStr(v string) string {
	if v == "nil" {
		return ""
	}

	if v == "big" {
		return bigVal
	}

	return v
}

func decStr(v string) string {
	if v == "" {
		return "nil"
	}

	if v == bigVal {
		return "big"
	}

	return v
}

func classifyAny(v interface{}, err error) ReadRes {
	if err == nil {
		return ReadRes{Class: "hit", V: decAny(v)}
	}

	var ex cache.ErrWithExpiredItem
	if errors.As(err, &ex) {
		if !errors.Is(err, cache.ErrExpired) {
			return ReadRes{Class: "error", Err: fmt.Errorf("expired item error is not ErrExpired: %w", err)}
		}

		return ReadRes{Class: "expired", V: decAny(ex.Value()), EAt: ex.ExpiredAt(), Err: err}
	}

	if errors.Is(err, cache.ErrNotFound) {
		return ReadRes{Class: "notfound", Err: err}
	}

	return ReadRes{Class: "error", Err: err}
}

func entAny(e cache.Entry) Ent {
	r := Ent{K: append([]byte(nil), e.Key()...), V: decAny(e.Value()), EAt: e.ExpireAt()}

	switch te := e.(type) {
	case *cache.TraitEntry:
		r.E = atomic.LoadInt64(&te.E)
		r.C = atomic.LoadInt64(&te.C)
	case cache.TraitEntry:
		r.E = te.E
		r.C = te.C
	default:
		r.E = e.ExpireAt().UnixNano()
	}

	return r
}

type shardedAd struct{ c *cache.ShardedMap }

func (a *shardedAd) Kind() string     { return "ShardedMap" }
func (a *shardedAd) Raw() interface{} { return a.c }
func (a *shardedAd) Index() *cache.InvalidationIndex {
	return a.c.InvalidationIndex
}
func (a *shardedAd) Write(ctx context.Context, k []byte, v string) error {
	return a.c.Write(ctx, k, encAny(v))
}
func (a *shardedAd) Read(ctx context.Context, k []byte) ReadRes { return classifyAny(a.c.Read(ctx, k)) }
func (a *shardedAd) Store(k []byte, v string)                   { a.c.Store(k, encAny(v)) }
func (a *shardedAd) Load(k []byte) (string, bool) {
	v, ok := a.c.Load(k)
	if !ok {
		if v != nil {
			return fmt.Sprintf("?non-nil value with ok=false: %#v", v), false
		}

		return "", false
	}

	return decAny(v), true
}
func (a *shardedAd) Delete(ctx context.Context, k []byte) error { return a.c.Delete(ctx, k) }
func (a *shardedAd) ExpireAll(ctx context.Context)              { a.c.ExpireAll(ctx) }
func (a *shardedAd) DeleteAll(ctx context.Context)              { a.c.DeleteAll(ctx) }
func (a *shardedAd) Len() int                                   { return a.c.Len() }
func (a *shardedAd) Walk(fn func(e Ent) error) (int, error) {
	return a.c.Walk(func(e cache.Entry) error { return fn(entAny(e)) })
}
func (a *shardedAd) Cleanup()                         { a.c.VerifCleanup() }
func (a *shardedAd) Dump(w io.Writer) (int, error)    { return a.c.Dump(w) }
func (a *shardedAd) Restore(r io.Reader) (int, error) { return a.c.Restore(r) }

type syncAd struct{ c *cache.SyncMap }

func (a *syncAd) Kind() string     { return "SyncMap" }
func (a *syncAd) Raw() interface{} { return a.c }
func (a *syncAd) Index() *cache.InvalidationIndex {
	return a.c.InvalidationIndex
}
func (a *syncAd) Write(ctx context.Context, k []byte, v string) error {
	return a.c.Write(ctx, k, encAny(v))
}
func (a *syncAd) Read(ctx context.Context, k []byte) ReadRes { return classifyAny(a.c.Read(ctx, k)) }

// SyncMap has no Load/Store; Read/Write with a background context are the same thing.
func (a *syncAd) Store(k []byte, v string) { _ = a.c.Write(context.Background(), k, encAny(v)) }
func (a *syncAd) Load(k []byte) (string, bool) {
	r := classifyAny(a.c.Read(context.Background(), k))
	if r.Class != "hit" {
		return "", false
	}

	return r.V, true
}
func (a *syncAd) Delete(ctx context.Context, k []byte) error { return a.c.Delete(ctx, k) }
func (a *syncAd) ExpireAll(ctx context.Context)              { a.c.ExpireAll(ctx) }
func (a *syncAd) DeleteAll(ctx context.Context)              { a.c.DeleteAll(ctx) }
func (a *syncAd) Len() int                                   { return a.c.Len() }
func (a *syncAd) Walk(fn func(e Ent) error) (int, error) {
	return a.c.Walk(func(e cache.Entry) error { return fn(entAny(e)) })
}
func (a *syncAd) Cleanup()                         { a.c.VerifCleanup() }
func (a *syncAd) Dump(w io.Writer) (int, error)    { return a.c.Dump(w) }
func (a *syncAd) Restore(r io.Reader) (int, error) { return a.c.Restore(r) }

type ofAd struct{ c *cache.ShardedMapOf[string] }

func (a *ofAd) Kind() string     { return "ShardedMapOf" }
func (a *ofAd) Raw() interface{} { return a.c }
func (a *ofAd) Index() *cache.InvalidationIndex {
	return a.c.InvalidationIndex
}
func (a *ofAd) Write(ctx context.Context, k []byte, v string) error {
	return a.c.Write(ctx, k, encStr(v))
}
func (a *ofAd) Read(ctx context.Context, k []byte) ReadRes {
	v, err := a.c.Read(ctx, k)
	if err == nil {
		return ReadRes{Class: "hit", V: decStr(v)}
	}

	var ex cache.ErrWithExpiredItemOf[string]
	if errors.As(err, &ex) {
		if !errors.Is(err, cache.ErrExpired) {
			return ReadRes{Class: "error", Err: fmt.Errorf("expired item error is not ErrExpired: %w", err)}
		}

		if v != "" {
			return ReadRes{Class: "error", Err: fmt.Errorf("non-zero value %q next to ErrExpired", v)}
		}

		return ReadRes{Class: "expired", V: decStr(ex.Value()), EAt: ex.ExpiredAt(), Err: err}
	}

	if errors.Is(err, cache.ErrNotFound) {
		if v != "" {
			return ReadRes{Class: "error", Err: fmt.Errorf("non-zero value %q next to ErrNotFound", v)}
		}

		return ReadRes{Class: "notfound", Err: err}
	}

	return ReadRes{Class: "error", Err: err}
}
func (a *ofAd) Store(k []byte, v string) { a.c.Store(k, encStr(v)) }
func (a *ofAd) Load(k []byte) (string, bool) {
	v, ok := a.c.Load(k)
	if !ok {
		if v != "" {
			return "?non-zero value with ok=false: " + v, false
		}

		return "", false
	}

	return decStr(v), true
}
func (a *ofAd) Delete(ctx context.Context, k []byte) error { return a.c.Delete(ctx, k) }
func (a *ofAd) ExpireAll(ctx context.Context)              { a.c.ExpireAll(ctx) }
func (a *ofAd) DeleteAll(ctx context.Context)              { a.c.DeleteAll(ctx) }
func (a *ofAd) Len() int                                   { return a.c.Len() }
func (a *ofAd) Walk(fn func(e Ent) error) (int, error) {
	return a.c.Walk(func(e cache.EntryOf[string]) error {
		r := Ent{K: append([]byte(nil), e.Key()...), V: decStr(e.Value()), EAt: e.ExpireAt()}
		if te, ok := e.(*cache.TraitEntryOf[string]); ok {
			r.E = atomic.LoadInt64(&te.E)
			r.C = atomic.LoadInt64(&te.C)
		} else {
			r.E = e.ExpireAt().UnixNano()
		}

		return fn(r)
	})
}
func (a *ofAd) Cleanup()                         { a.c.VerifCleanup() }
func (a *ofAd) Dump(w io.Writer) (int, error)    { return a.c.Dump(w) }
func (a *ofAd) Restore(r io.Reader) (int, error) { return a.c.Restore(r) }

var _ = bytes.Equal
