package harness

import (
	"bufio"
	"encoding/json"
	"fmt"
	"os"
	"strconv"
	"time"
)

// Violation describes one disagreement between the specification and the code.
type Violation struct {
	Prop      string      `json:"prop"`
	Backend   string      `json:"backend,omitempty"`
	Behaviour int         `json:"behaviour"`
	Step      int         `json:"step"`
	What      string      `json:"what"`
	Want      interface{} `json:"want,omitempty"`
	Got       interface{} `json:"got,omitempty"`
	Sig       string      `json:"sig,omitempty"` // machine-matchable signature for known_findings.json
	Replay    interface{} `json:"replay,omitempty"`
}

// Result is what every harness entry point writes to VERIF_OUT.
type Result struct {
	Evaluations int                    `json:"evaluations"`
	Steps       int                    `json:"steps"`
	Lockstep    int                    `json:"lockstep_ok"`
	Distinct    int                    `json:"distinct_nontrivial"`
	Violations  []Violation            `json:"violations"`
	Samples     []interface{}          `json:"samples,omitempty"`
	Extra       map[string]interface{} `json:"extra,omitempty"`
	Fatal       string                 `json:"fatal,omitempty"` // harness problem: inconclusive, not a violation
}

func envStr(name, def string) string {
	if v := os.Getenv(name); v != "" {
		return v
	}

	return def
}

func envInt(name string, def int64) int64 {
	if v := os.Getenv(name); v != "" {
		if n, err := strconv.ParseInt(v, 10, 64); err == nil {
			return n
		}
	}

	return def
}

func readJSON(path string, v interface{}) error {
	b, err := os.ReadFile(path)
	if err != nil {
		return err
	}

	return json.Unmarshal(b, v)
}

func writeJSON(path string, v interface{}) error {
	b, err := json.MarshalIndent(v, "", " ")
	if err != nil {
		return err
	}

	return os.WriteFile(path, b, 0o644)
}

// readLines reads a file of JSON documents, one per line.
func readLines(path string, each func(line []byte) error) error {
	f, err := os.Open(path)
	if err != nil {
		return err
	}
	defer f.Close()

	sc := bufio.NewScanner(f)
	sc.Buffer(make([]byte, 1<<20), 1<<28)

	for sc.Scan() {
		if len(sc.Bytes()) == 0 {
			continue
		}

		if err := each(sc.Bytes()); err != nil {
			return err
		}
	}

	return sc.Err()
}

// Tick convention (DESIGN.md 2.3).
const (
	NoExp = 999
	Eps   = time.Microsecond
)

// TickDur converts a model TTL of n ticks into a real duration n*U - U/2.
func TickDur(n int, u time.Duration) time.Duration {
	return time.Duration(n)*u - u/2
}

// TickOf projects a raw expiry (ns) onto the model tick: the smallest tick t with E <= t0 + t*U (+1% slack).
func TickOf(e int64, t0 time.Time, u time.Duration) int {
	if e == 0 {
		return NoExp
	}

	d := e - t0.UnixNano() - int64(u/100)
	q := d / int64(u)

	if d > 0 && d%int64(u) != 0 {
		q++
	}

	return int(q)
}

func mustNoErr(err error, what string) {
	if err != nil {
		panic(fmt.Sprintf("%s: %v", what, err))
	}
}
