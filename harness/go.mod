module verif/harness

go 1.26.8

require github.com/bool64/cache v0.0.0

require github.com/cespare/xxhash/v2 v2.2.0

replace github.com/bool64/cache => /repo
