package harness

import (
	"context"
	"encoding/json"
	"fmt"
	"math/rand"
	"os"
	"sort"
	"sync"
	"sync/atomic"
	"testing"
	"time"

	"github.com/bool64/cache"
)

// linOp is one operation of a concurrent history (call and return stamps from one global atomic counter).
type linOp struct {
	ID     int         `json:"id"`
	G      int         `json:"g"`
	Op     string      `json:"op"`
	K      string      `json:"k"`
	V      string      `json:"v"`
	Cls    string      `json:"cls"`
	Res    string      `json:"res"`
	RV     string      `json:"rv"`
	Call   int64       `json:"call"`
	Ret    int64       `json:"ret"`
	Visits [][2]string `json:"visits,omitempty"` // Walk: (key, value) in visiting order
}

// TestLinRecord: really concurrent random operation mixes on the real backends; histories written as ndjson.
func TestLinRecord(t *testing.T) {
	outp := os.Getenv("VERIF_TRACE_OUT")
	if outp == "" || os.Getenv("VERIF_LIN") == "" {
		t.Skip("VERIF_LIN not set")
	}

	seed := envInt("VERIF_SEED", 1)
	n := int(envInt("VERIF_N", 30))
	res := Result{Extra: map[string]interface{}{}}

	defer func() { mustNoErr(writeJSON(os.Getenv("VERIF_OUT"), res), "write result") }()

	f, err := os.Create(outp)
	mustNoErr(err, "trace out")

	defer f.Close()

	enc := json.NewEncoder(f)
	models := []string{"k1", "k2", "k3", "k4", "k5", "k6"}

	for hi := 0; hi < n; hi++ {
		rng := rand.New(rand.NewSource(seed*104729 + int64(hi))) //nolint:gosec
		kind := Kinds[hi%3]
		strat := []cache.EvictionStrategy{cache.EvictMostExpired, cache.EvictLeastRecentlyUsed, cache.EvictLeastFrequentlyUsed}[(hi/3)%3]
		evict := rng.Intn(3) == 0

		km, err := NewKeyMap(seed+int64(hi), kind != "SyncMap", models)
		mustNoErr(err, "keymap")

		cc := cache.Config{Name: "lin", TimeToLive: time.Hour, ExpirationJitter: -1, DeleteExpiredAfter: 30 * time.Minute,
			DeleteExpiredJobInterval: 100000 * time.Hour, EvictionStrategy: strat}
		if evict {
			cc.CountSoftLimit = 3
			cc.EvictFraction = 0.34
		}

		be := NewBackend(kind, cc)

		var (
			stamp int64
			mu    sync.Mutex
			ops   []linOp
			idc   int64
			wg    sync.WaitGroup
		)

		G := 2 + rng.Intn(int(envInt("VERIF_MAXG", 16))-1)
		per := 15 + rng.Intn(31)

		seeds := make([]int64, G)
		for g := range seeds {
			seeds[g] = rng.Int63()
		}

		start := make(chan struct{})

		for g := 0; g < G; g++ {
			wg.Add(1)

			go func(g int) {
				defer wg.Done()

				r := rand.New(rand.NewSource(seeds[g])) //nolint:gosec
				kb := KeyBuf{}

				<-start

				for i := 0; i < per; i++ {
					op := linOp{ID: int(atomic.AddInt64(&idc, 1)), G: g}
					mk := models[r.Intn(len(models))]
					ctx := context.Background()

					x := r.Intn(100)

					switch {
					case x < 34:
						op.Op, op.K = "Write", mk
						op.V = fmt.Sprintf("g%d.%d", g, i)

						switch r.Intn(4) {
						case 0:
							op.Cls = "stale"
							ctx = cache.WithTTL(ctx, -1, false)
						case 1:
							op.Cls = "old"
							ctx = cache.WithTTL(ctx, -time.Hour, false)
						default:
							op.Cls = "fresh"
						}

						key := kb.Get(km.ByModel[mk])
						op.Call = atomic.AddInt64(&stamp, 1)
						_ = be.Write(ctx, key, op.V)
						op.Ret = atomic.AddInt64(&stamp, 1)
						kb.Scramble()
					case x < 68:
						op.Op, op.K = "Read", mk
						key := kb.Get(km.ByModel[mk])
						op.Call = atomic.AddInt64(&stamp, 1)
						rr := be.Read(ctx, key)
						op.Ret = atomic.AddInt64(&stamp, 1)
						kb.Scramble()
						op.Res, op.RV = rr.Class, rr.V

						if rr.Class == "error" {
							op.Res = "error:" + rr.Err.Error()
						}
					case x < 80:
						op.Op, op.K = "Delete", mk
						key := kb.Get(km.ByModel[mk])
						op.Call = atomic.AddInt64(&stamp, 1)
						err := be.Delete(ctx, key)
						op.Ret = atomic.AddInt64(&stamp, 1)
						kb.Scramble()

						op.Res = "ok"
						if err != nil {
							op.Res = "notfound"
						}
					case x < 84:
						op.Op = "ExpireAll"
						op.Call = atomic.AddInt64(&stamp, 1)
						be.ExpireAll(ctx)
						op.Ret = atomic.AddInt64(&stamp, 1)
					case x < 86:
						op.Op = "DeleteAll"
						op.Call = atomic.AddInt64(&stamp, 1)
						be.DeleteAll(ctx)
						op.Ret = atomic.AddInt64(&stamp, 1)
					case x < 93:
						op.Op = "Cleanup"
						if evict {
							op.Op = "CleanupEvict"
						}

						op.Call = atomic.AddInt64(&stamp, 1)
						be.Cleanup()
						op.Ret = atomic.AddInt64(&stamp, 1)
					default:
						op.Op = "Walk"
						op.Call = atomic.AddInt64(&stamp, 1)
						_, _ = be.Walk(func(e Ent) error {
							mk, ok := km.ByReal[string(e.K)]
							if !ok {
								mk = fmt.Sprintf("?%x", e.K)
							}

							op.Visits = append(op.Visits, [2]string{mk, e.V})

							return nil
						})
						op.Ret = atomic.AddInt64(&stamp, 1)
					}

					mu.Lock()
					ops = append(ops, op)
					mu.Unlock()
				}
			}(g)
		}

		close(start)
		wg.Wait()

		sort.Slice(ops, func(i, j int) bool { return ops[i].Call < ops[j].Call })

		_ = enc.Encode(map[string]interface{}{"h": hi, "kind": kind, "collide": km.Collide, "goroutines": G, "ops": ops,
			"keys": models, "evict": evict})
		res.Evaluations++
		res.Steps += len(ops)
	}
}
