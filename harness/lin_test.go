package harness

import (
	"context"
	"encoding/json"
	"fmt"
	"math/rand"
	"os"
	"sort"
	"sync"
	"sync/atomic"
	"testing"
	"time"

	"github.com/bool64/cache"
	"github.com/cespare/xxhash/v2"
)

// linOp is one operation of a concurrent history (call and return stamps from one global atomic counter).
type linOp struct {
	ID     int         `json:"id"`
	G      int         `json:"g"`
	Op     string      `json:"op"`
	K      string      `json:"k"`
	V      string      `json:"v"`
	Cls    string      `json:"cls"`
	Res    string      `json:"res"`
	RV     string      `json:"rv"`
	N      int         `json:"n"`
	Call   int64       `json:"call"`
	Ret    int64       `json:"ret"`
	Visits [][2]string `json:"visits,omitempty"` // Walk: (key, value) in visiting order
}

// TestLinRecord: really concurrent random operation mixes on the real backends; histories written as ndjson.
func TestLinRecord(t *testing.T) {
	outp := os.Getenv("VERIF_TRACE_OUT")
	if outp == "" || os.Getenv("VERIF_LIN") == "" {
		t.Skip("VERIF_LIN not set")
	}

	seed := envInt("VERIF_SEED", 1)
	n := int(envInt("VERIF_N", 30))
	res := Result{Extra: map[string]interface{}{}}

	defer func() { mustNoErr(writeJSON(os.Getenv("VERIF_OUT"), res), "write result") }()

	f, err := os.Create(outp)
	mustNoErr(err, "trace out")

	defer f.Close()

	enc := json.NewEncoder(f)
	models := []string{"k1", "k2", "k3", "k4", "k5", "k6"}

	for hi := 0; hi < n; hi++ {
		rng := rand.New(rand.NewSource(seed*104729 + int64(hi))) //nolint:gosec
		kind := Kinds[hi%3]
		strat := []cache.EvictionStrategy{cache.EvictMostExpired, cache.EvictLeastRecentlyUsed, cache.EvictLeastFrequentlyUsed}[(hi/3)%3]
		evict := rng.Intn(3) == 0

		km, err := NewKeyMap(seed+int64(hi), kind != "SyncMap", models)
		mustNoErr(err, "keymap")

		cc := cache.Config{Name: "lin", TimeToLive: time.Hour, ExpirationJitter: -1, DeleteExpiredAfter: 30 * time.Minute,
			DeleteExpiredJobInterval: 100000 * time.Hour, EvictionStrategy: strat}
		if evict {
			cc.CountSoftLimit = 3
			cc.EvictFraction = 0.34
		}

		be := NewBackend(kind, cc)

		var (
			stamp int64
			mu    sync.Mutex
			ops   []linOp
			idc   int64
			wg    sync.WaitGroup
		)

		G := 2 + rng.Intn(int(envInt("VERIF_MAXG", 16))-1)
		per := 15 + rng.Intn(31)

		seeds := make([]int64, G)
		for g := range seeds {
			seeds[g] = rng.Int63()
		}

		start := make(chan struct{})

		for g := 0; g < G; g++ {
			wg.Add(1)

			go func(g int) {
				defer wg.Done()

				r := rand.New(rand.NewSource(seeds[g])) //nolint:gosec
				kb := KeyBuf{}

				<-start

				for i := 0; i < per; i++ {
					op := linOp{ID: int(atomic.AddInt64(&idc, 1)), G: g}
					mk := models[r.Intn(len(models))]
					ctx := context.Background()

					x := r.Intn(100)

					switch {
					case x < 34:
						op.Op, op.K = "Write", mk
						op.V = fmt.Sprintf("g%d.%d", g, i)

						switch r.Intn(4) {
						case 0:
							op.Cls = "stale"
							ctx = cache.WithTTL(ctx, -1, false)
						case 1:
							op.Cls = "old"
							ctx = cache.WithTTL(ctx, -time.Hour, false)
						default:
							op.Cls = "fresh"
						}

						key := kb.Get(km.ByModel[mk])
						op.Call = atomic.AddInt64(&stamp, 1)
						_ = be.Write(ctx, key, op.V)
						op.Ret = atomic.AddInt64(&stamp, 1)
						kb.Scramble()
					case x < 68:
						op.Op, op.K = "Read", mk
						key := kb.Get(km.ByModel[mk])
						op.Call = atomic.AddInt64(&stamp, 1)
						rr := be.Read(ctx, key)
						op.Ret = atomic.AddInt64(&stamp, 1)
						kb.Scramble()
						op.Res, op.RV = rr.Class, rr.V

						if rr.Class == "error" {
							op.Res = "error:" + rr.Err.Error()
						}
					case x < 80:
						op.Op, op.K = "Delete", mk
						key := kb.Get(km.ByModel[mk])
						op.Call = atomic.AddInt64(&stamp, 1)
						err := be.Delete(ctx, key)
						op.Ret = atomic.AddInt64(&stamp, 1)
						kb.Scramble()

						op.Res = "ok"
						if err != nil {
							op.Res = "notfound"
						}
					case x < 84:
						op.Op = "ExpireAll"
						op.Call = atomic.AddInt64(&stamp, 1)
						be.ExpireAll(ctx)
						op.Ret = atomic.AddInt64(&stamp, 1)
					case x < 86:
						op.Op = "DeleteAll"
						op.Call = atomic.AddInt64(&stamp, 1)
						be.DeleteAll(ctx)
						op.Ret = atomic.AddInt64(&stamp, 1)
					case x < 93:
						op.Op = "Cleanup"
						if evict {
							op.Op = "CleanupEvict"
						}

						op.Call = atomic.AddInt64(&stamp, 1)
						be.Cleanup()
						op.Ret = atomic.AddInt64(&stamp, 1)
					default:
						op.Op = "Walk"
						op.Call = atomic.AddInt64(&stamp, 1)
						_, _ = be.Walk(func(e Ent) error {
							mk, ok := km.ByReal[string(e.K)]
							if !ok {
								mk = fmt.Sprintf("?%x", e.K)
							}

							op.Visits = append(op.Visits, [2]string{mk, e.V})

							return nil
						})
						op.Ret = atomic.AddInt64(&stamp, 1)
					}

					mu.Lock()
					ops = append(ops, op)
					mu.Unlock()
				}
			}(g)
		}

		close(start)
		wg.Wait()

		sort.Slice(ops, func(i, j int) bool { return ops[i].Call < ops[j].Call })

		_ = enc.Encode(map[string]interface{}{"h": hi, "kind": kind, "collide": km.Collide, "goroutines": G, "ops": ops,
			"keys": models, "evict": evict})
		res.Evaluations++
		res.Steps += len(ops)
	}
}

type blockMark struct{}

// keysByBucket finds concrete keys whose shard index (xxhash64 % 128) lies in [lo, hi].
func keysByBucket(prefix string, lo, hi uint64, n int) [][]byte {
	var res [][]byte

	for i := 0; len(res) < n && i < 100000; i++ {
		k := []byte(fmt.Sprintf("%s-%d", prefix, i))
		if b := xxhash.Sum64(k) % 128; b >= lo && b <= hi {
			res = append(res, k)
		}
	}

	return res
}

// TestLinStalled records DIRECTED histories: a batch operation (janitor cycle, ExpireAll, DeleteAll) of a sharded map
// is stalled half-way - a writer parked inside the stats call-out of its Write holds the lock of shard 64, which the
// batch operation has to pass - and single-key operations on keys of already processed shards (< 50) and of pending
// shards (> 80) are issued during the stall.  Everything is stamped like in TestLinRecord and judged by MonLin, so the
// verdict does not depend on the stall having worked.
func TestLinStalled(t *testing.T) {
	outp := os.Getenv("VERIF_TRACE_OUT")
	if outp == "" || os.Getenv("VERIF_LINSTALL") == "" {
		t.Skip("VERIF_LINSTALL not set")
	}

	seed := envInt("VERIF_SEED", 1)
	n := int(envInt("VERIF_N", 60))
	res := Result{Extra: map[string]interface{}{}}

	defer func() { mustNoErr(writeJSON(os.Getenv("VERIF_OUT"), res), "write result") }()

	f, err := os.Create(outp)
	mustNoErr(err, "trace out")

	defer f.Close()

	enc := json.NewEncoder(f)
	models := []string{"k1", "k2", "k3", "k4", "k5", "k6"}
	stalledOK := 0

	for hi := 0; hi < n; hi++ {
		rng := rand.New(rand.NewSource(seed*7907 + int64(hi))) //nolint:gosec
		kind := []string{"ShardedMap", "ShardedMapOf"}[hi%2]
		batch := []string{"Cleanup", "ExpireAll", "DeleteAll"}[(hi/2)%3]
		unlimited := rng.Intn(2) == 0

		lo := keysByBucket(fmt.Sprintf("lo%d", hi), 0, 49, 3)
		hiK := keysByBucket(fmt.Sprintf("hi%d", hi), 81, 127, 3)
		sentinel := keysByBucket(fmt.Sprintf("se%d", hi), 50, 63, 1)[0]
		bl := keysByBucket(fmt.Sprintf("bl%d", hi), 64, 64, 2)
		blocker, inBlocked := bl[0], bl[1] // inBlocked ("kz"): a long-expired entry in the shard whose lock the blocker holds

		km := &KeyMap{ByModel: map[string][]byte{}, ByReal: map[string]string{}}
		for i, k := range append(append([][]byte{}, lo...), hiK...) {
			km.ByModel[models[i]] = k
			km.ByReal[string(k)] = models[i]
		}

		stat := NewStatRec()
		entered := make(chan struct{})
		release := make(chan struct{})

		stat.Hook = func(ctx context.Context, metric, name string, val float64) {
			if metric == cache.MetricWrite && ctx.Value(blockMark{}) != nil {
				close(entered)
				<-release
			}
		}

		cc := cache.Config{Name: "lin", Stats: stat, TimeToLive: time.Hour, ExpirationJitter: -1,
			DeleteExpiredAfter: 30 * time.Minute, DeleteExpiredJobInterval: 100000 * time.Hour,
			ItemsCountReportInterval: 100000 * time.Hour}
		if unlimited {
			cc.TimeToLive = cache.UnlimitedTTL
		}

		be := NewBackend(kind, cc)

		var (
			stamp int64
			mu    sync.Mutex
			ops   []linOp
			idc   int64
		)

		record := func(op linOp) {
			mu.Lock()
			ops = append(ops, op)
			mu.Unlock()
		}

		classCtx := func(cls string) context.Context {
			switch cls {
			case "stale":
				return cache.WithTTL(context.Background(), -1, false)
			case "old":
				return cache.WithTTL(context.Background(), -time.Hour, false)
			}

			return context.Background()
		}

		do := func(r *rand.Rand, g int, kinds []string) {
			op := linOp{ID: int(atomic.AddInt64(&idc, 1)), G: g}
			mk := models[r.Intn(len(models))]
			op.K = mk

			switch kinds[r.Intn(len(kinds))] {
			case "Write":
				op.Op = "Write"
				op.V = fmt.Sprintf("g%d.%d", g, op.ID)
				op.Cls = []string{"fresh", "stale", "old", "old"}[r.Intn(4)]
				op.Call = atomic.AddInt64(&stamp, 1)
				_ = be.Write(classCtx(op.Cls), km.ByModel[mk], op.V)
				op.Ret = atomic.AddInt64(&stamp, 1)
			case "Read":
				op.Op = "Read"
				op.Call = atomic.AddInt64(&stamp, 1)
				rr := be.Read(context.Background(), km.ByModel[mk])
				op.Ret = atomic.AddInt64(&stamp, 1)
				op.Res, op.RV = rr.Class, rr.V
			case "Delete":
				op.Op = "Delete"
				op.Call = atomic.AddInt64(&stamp, 1)
				err := be.Delete(context.Background(), km.ByModel[mk])
				op.Ret = atomic.AddInt64(&stamp, 1)

				op.Res = "ok"
				if err != nil {
					op.Res = "notfound"
				}
			}

			record(op)
		}

		// pre-phase
		for i := 0; i < 5; i++ {
			do(rng, 0, []string{"Write"})
		}

		sentCls := "old"
		if batch != "Cleanup" {
			sentCls = "fresh"
		}

		// the sentinel (key "ks") and the blocker (key "kb") are part of the history: cache_delete is judged over all keys
		sop := linOp{ID: int(atomic.AddInt64(&idc, 1)), G: 0, Op: "Write", K: "ks", V: "sentinel", Cls: sentCls}
		sop.Call = atomic.AddInt64(&stamp, 1)
		_ = be.Write(classCtx(sentCls), sentinel, "sentinel")
		sop.Ret = atomic.AddInt64(&stamp, 1)
		record(sop)

		zop := linOp{ID: int(atomic.AddInt64(&idc, 1)), G: 0, Op: "Write", K: "kz", V: "inblocked", Cls: "old"}
		zop.Call = atomic.AddInt64(&stamp, 1)
		_ = be.Write(classCtx("old"), inBlocked, "inblocked")
		zop.Ret = atomic.AddInt64(&stamp, 1)
		record(zop)

		// blocker parks inside the stats call-out under the lock of shard 64
		var wg sync.WaitGroup

		blockerCall := make(chan int64, 1)
		blockerCall <- atomic.AddInt64(&stamp, 1)

		wg.Add(1)

		go func() {
			defer wg.Done()

			bop := linOp{ID: int(atomic.AddInt64(&idc, 1)), G: 3, Op: "Write", K: "kb", V: "blocker", Cls: "fresh"}
			bop.Call = <-blockerCall
			_ = be.Write(context.WithValue(context.Background(), blockMark{}, true), blocker, "blocker")
			bop.Ret = atomic.AddInt64(&stamp, 1)
			record(bop)
		}()

		<-entered

		wg.Add(1)

		go func() {
			defer wg.Done()

			op := linOp{ID: int(atomic.AddInt64(&idc, 1)), G: 1, Op: batch}
			op.Call = atomic.AddInt64(&stamp, 1)

			switch batch {
			case "Cleanup":
				be.Cleanup()
			case "ExpireAll":
				be.ExpireAll(context.Background())
			case "DeleteAll":
				be.DeleteAll(context.Background())
			}

			op.Ret = atomic.AddInt64(&stamp, 1)
			record(op)
		}()

		// wait (bounded) until the batch operation has visibly passed the shards below 64
		deadline := time.Now().Add(50 * time.Millisecond)
		for time.Now().Before(deadline) {
			rr := be.Read(context.Background(), sentinel)
			if (batch == "ExpireAll" && rr.Class == "expired") || (batch != "ExpireAll" && rr.Class == "notfound") {
				stalledOK++

				break
			}

			time.Sleep(50 * time.Microsecond)
		}

		// mid-phase: single-key operations while the batch operation is stalled
		for i := 0; i < 4+rng.Intn(4); i++ {
			do(rng, 2, []string{"Write", "Write", "Read", "Delete"})
		}

		close(release)
		wg.Wait()

		// the batch operation has returned: it must have dealt with the shard it had to wait for
		{
			op := linOp{ID: int(atomic.AddInt64(&idc, 1)), G: 0, Op: "Read", K: "kz"}
			op.Call = atomic.AddInt64(&stamp, 1)
			rr := be.Read(context.Background(), inBlocked)
			op.Ret = atomic.AddInt64(&stamp, 1)
			op.Res, op.RV = rr.Class, rr.V
			record(op)
		}

		// post-phase: a full janitor cycle, then every key is read
		op := linOp{ID: int(atomic.AddInt64(&idc, 1)), G: 0, Op: "Cleanup"}
		op.Call = atomic.AddInt64(&stamp, 1)
		be.Cleanup()
		op.Ret = atomic.AddInt64(&stamp, 1)
		record(op)

		km.ByModel["ks"], km.ByModel["kb"], km.ByModel["kz"] = sentinel, blocker, inBlocked
		allKeys := append(append([]string{}, models...), "ks", "kb", "kz")

		for _, mk := range allKeys {
			op := linOp{ID: int(atomic.AddInt64(&idc, 1)), G: 0, Op: "Read", K: mk}
			op.Call = atomic.AddInt64(&stamp, 1)
			rr := be.Read(context.Background(), km.ByModel[mk])
			op.Ret = atomic.AddInt64(&stamp, 1)
			op.Res, op.RV = rr.Class, rr.V
			record(op)
		}

		sort.Slice(ops, func(i, j int) bool { return ops[i].Call < ops[j].Call })

		_ = enc.Encode(map[string]interface{}{"h": 100000 + hi, "kind": kind, "collide": false, "goroutines": 3, "ops": ops,
			"keys": allKeys, "evict": false, "stalled": batch, "unlimited": unlimited,
			"metric_delete": stat.Total(cache.MetricDelete, "lin")})
		res.Evaluations++
		res.Steps += len(ops)
	}

	res.Extra["stall_observed"] = stalledOK
}

// TestLinPileup records DIRECTED single-key histories: many goroutines are queued behind the lock of the key's shard
// (held by a writer of ANOTHER key of the same shard that is parked in its stats call-out) and released together, so
// that their critical sections collide; the history ends with the cache_delete total.  Judged by MonLin (Mode "lin" for
// C08, Mode "metrics" for C18: cache_delete must equal the number of entries actually removed).
func TestLinPileup(t *testing.T) {
	outp := os.Getenv("VERIF_TRACE_OUT")
	if outp == "" || os.Getenv("VERIF_LINPILE") == "" {
		t.Skip("VERIF_LINPILE not set")
	}

	seed := envInt("VERIF_SEED", 1)
	n := int(envInt("VERIF_N", 60))
	res := Result{Extra: map[string]interface{}{}}

	defer func() { mustNoErr(writeJSON(os.Getenv("VERIF_OUT"), res), "write result") }()

	f, err := os.Create(outp)
	mustNoErr(err, "trace out")

	defer f.Close()

	enc := json.NewEncoder(f)

	for hi := 0; hi < n; hi++ {
		rng := rand.New(rand.NewSource(seed*6151 + int64(hi))) //nolint:gosec
		kind := Kinds[hi%3]
		bucket := uint64(rng.Intn(128))
		two := keysByBucket(fmt.Sprintf("p%d", hi), bucket, bucket, 2)
		key, blocker := two[0], two[1]

		// VERIF_PILE_COLLIDE: two keys with the same xxhash64 sum (one slot of one shard of the sharded maps); the pile-up
		// mixes operations on both, a write of one key evicts the other and nothing else may cross over
		collide := os.Getenv("VERIF_PILE_COLLIDE") != ""
		key2 := []byte(nil)

		if collide {
			kind = []string{"ShardedMap", "ShardedMapOf"}[hi%2]

			a, b, ok := CollidingPair(rng)
			if !ok {
				continue
			}

			key, key2 = a, b
			bucket = xxhash.Sum64(a) % 128
			blocker = keysByBucket(fmt.Sprintf("pc%d", hi), bucket, bucket, 1)[0]
		}

		stat := NewStatRec()
		entered := make(chan struct{})
		release := make(chan struct{})

		stat.Hook = func(ctx context.Context, metric, name string, val float64) {
			if metric == cache.MetricWrite && ctx.Value(blockMark{}) != nil {
				close(entered)
				<-release
			}
		}

		be := NewBackend(kind, cache.Config{Name: "lin", Stats: stat, TimeToLive: time.Hour, ExpirationJitter: -1,
			DeleteExpiredJobInterval: 100000 * time.Hour, ItemsCountReportInterval: 100000 * time.Hour})

		var (
			stamp int64
			mu    sync.Mutex
			ops   []linOp
			idc   int64
			wg    sync.WaitGroup
		)

		one := func(g int, what string) {
			op := linOp{ID: int(atomic.AddInt64(&idc, 1)), G: g, Op: what, K: "k1"}
			key := key

			if len(what) > 1 && what[len(what)-1] == '2' { // "Write2": the colliding key
				what, op.Op, op.K, key = what[:len(what)-1], what[:len(what)-1], "k2", key2
			}

			switch what {
			case "Write":
				op.V, op.Cls = fmt.Sprintf("g%d.%d", g, op.ID), "fresh"
				op.Call = atomic.AddInt64(&stamp, 1)
				_ = be.Write(context.Background(), key, op.V)
				op.Ret = atomic.AddInt64(&stamp, 1)
			case "Read":
				op.Call = atomic.AddInt64(&stamp, 1)
				rr := be.Read(context.Background(), key)
				op.Ret = atomic.AddInt64(&stamp, 1)
				op.Res, op.RV = rr.Class, rr.V
			case "Delete":
				op.Call = atomic.AddInt64(&stamp, 1)
				err := be.Delete(context.Background(), key)
				op.Ret = atomic.AddInt64(&stamp, 1)

				op.Res = "ok"
				if err != nil {
					op.Res = "notfound"
				}
			}

			mu.Lock()
			ops = append(ops, op)
			mu.Unlock()
		}

		one(0, "Write")

		// the blocker holds the shard lock (sharded maps); SyncMap has no lock to hold: plain simultaneous start
		go func() {
			_ = be.Write(context.WithValue(context.Background(), blockMark{}, true), blocker, "blocker")
		}()

		<-entered

		G := 3 + rng.Intn(6)
		startc := make(chan struct{})

		for g := 1; g <= G; g++ {
			wg.Add(1)

			what := []string{"Delete", "Delete", "Delete", "Read", "Write"}[rng.Intn(5)]
			if collide {
				what = []string{"Delete", "Delete", "Write2", "Write2", "Read2", "Read", "Write", "Delete2"}[rng.Intn(8)]
			}

			go func(g int, what string) {
				defer wg.Done()

				<-startc
				one(g, what)
			}(g, what)
		}

		close(startc)
		time.Sleep(time.Duration(200+rng.Intn(800)) * time.Microsecond) // let them queue up behind the shard lock
		close(release)
		wg.Wait()

		one(0, "Read")

		if collide {
			one(0, "Read2")
			sort.Slice(ops, func(i, j int) bool { return ops[i].Call < ops[j].Call })

			_ = enc.Encode(map[string]interface{}{"h": 300000 + hi, "kind": kind, "collide": true, "goroutines": G, "ops": ops,
				"keys": []string{"k1", "k2"}, "evict": false})
			res.Evaluations++
			res.Steps += len(ops)

			continue
		}

		md := linOp{ID: int(atomic.AddInt64(&idc, 1)), Op: "MetricDelete", K: "k1", N: stat.Total(cache.MetricDelete, "lin")}
		md.Call = atomic.AddInt64(&stamp, 1)
		md.Ret = atomic.AddInt64(&stamp, 1)
		ops = append(ops, md)

		sort.Slice(ops, func(i, j int) bool { return ops[i].Call < ops[j].Call })

		_ = enc.Encode(map[string]interface{}{"h": 200000 + hi, "kind": kind, "collide": false, "goroutines": G, "ops": ops,
			"keys": []string{"k1"}, "evict": false})
		res.Evaluations++
		res.Steps += len(ops)
	}
}

// TestLinReader records DIRECTED histories with a STALLED READER: a Read of k1 is parked inside the library's stats
// call-out (cache_hit / cache_expired are reported after the entry has been looked up and before its value is handed
// out); while it is parked other goroutines delete / overwrite k1, write other keys, expire or delete everything, run
// a janitor cycle; then the reader is released.  What it returns must be explained by some instant of its (long) call:
// a value that k1 held during the call - never a value written to another key, never a value written after the call.
// Expired items are re-read at the end: what a reader was handed is a snapshot.  Judged by MonLin.
func TestLinReader(t *testing.T) {
	outp := os.Getenv("VERIF_TRACE_OUT")
	if outp == "" || os.Getenv("VERIF_LINREADER") == "" {
		t.Skip("VERIF_LINREADER not set")
	}

	seed := envInt("VERIF_SEED", 1)
	n := int(envInt("VERIF_N", 60))
	res := Result{Extra: map[string]interface{}{}}

	defer func() { mustNoErr(writeJSON(os.Getenv("VERIF_OUT"), res), "write result") }()

	f, err := os.Create(outp)
	mustNoErr(err, "trace out")

	defer f.Close()

	enc := json.NewEncoder(f)
	models := []string{"k1", "k2", "k3"}
	stalled := 0

	for hi := 0; hi < n; hi++ {
		rng := rand.New(rand.NewSource(seed*7333 + int64(hi))) //nolint:gosec
		kind := Kinds[hi%3]

		km, err := NewKeyMap(seed+int64(hi), false, models)
		mustNoErr(err, "keymap")

		stat := NewStatRec()
		entered := make(chan struct{})
		release := make(chan struct{})

		var once sync.Once

		stat.Hook = func(ctx context.Context, metric, name string, val float64) {
			if (metric == cache.MetricHit || metric == cache.MetricExpired) && ctx.Value(blockMark{}) != nil {
				once.Do(func() {
					close(entered)
					<-release
				})
			}
		}

		cc := cache.Config{Name: "lin", Stats: stat, TimeToLive: time.Hour, ExpirationJitter: -1,
			DeleteExpiredAfter: 30 * time.Minute, DeleteExpiredJobInterval: 100000 * time.Hour,
			ItemsCountReportInterval: 100000 * time.Hour,
			EvictionStrategy: []cache.EvictionStrategy{cache.EvictMostExpired, cache.EvictLeastFrequentlyUsed,
				cache.EvictLeastRecentlyUsed}[(hi/3)%3]}

		be := NewBackend(kind, cc)

		var (
			stamp int64
			mu    sync.Mutex
			ops   []linOp
			idc   int64
		)

		record := func(op linOp) {
			mu.Lock()
			ops = append(ops, op)
			mu.Unlock()
		}

		classCtx := func(cls string) context.Context {
			switch cls {
			case "stale":
				return cache.WithTTL(context.Background(), -1, false)
			case "old":
				return cache.WithTTL(context.Background(), -time.Hour, false)
			}

			return context.Background()
		}

		write := func(g int, mk, cls string) {
			op := linOp{ID: int(atomic.AddInt64(&idc, 1)), G: g, Op: "Write", K: mk, Cls: cls}
			op.V = fmt.Sprintf("%s.g%d.%d", mk, g, op.ID)
			op.Call = atomic.AddInt64(&stamp, 1)
			_ = be.Write(classCtx(cls), km.ByModel[mk], op.V)
			op.Ret = atomic.AddInt64(&stamp, 1)
			record(op)
		}

		read := func(g int, mk string, ctx context.Context) {
			op := linOp{ID: int(atomic.AddInt64(&idc, 1)), G: g, Op: "Read", K: mk}
			op.Call = atomic.AddInt64(&stamp, 1)
			rr := be.Read(ctx, km.ByModel[mk])
			op.Ret = atomic.AddInt64(&stamp, 1)
			op.Res, op.RV = rr.Class, rr.V
			record(op)
		}

		// pre-phase: k1 holds a fresh or an expired value, the other keys something or nothing
		write(0, "k1", []string{"fresh", "stale", "fresh", "old"}[rng.Intn(4)])

		if rng.Intn(2) == 0 {
			write(0, "k2", "fresh")
		}

		var wg sync.WaitGroup

		wg.Add(1)

		go func() {
			defer wg.Done()

			read(1, "k1", context.WithValue(context.Background(), blockMark{}, true))
		}()

		select {
		case <-entered:
			stalled++
		case <-time.After(2 * time.Second): // a Read that reports nothing (it cannot happen here) just runs through
		}

		// mid-phase: the world changes while the reader sits on the entry it has looked up
		for i, m := 0, 2+rng.Intn(4); i < m; i++ {
			switch x := rng.Intn(10); {
			case x < 3:
				write(2, "k1", []string{"fresh", "stale"}[rng.Intn(2)])
			case x < 5:
				op := linOp{ID: int(atomic.AddInt64(&idc, 1)), G: 2, Op: "Delete", K: "k1"}
				op.Call = atomic.AddInt64(&stamp, 1)
				err := be.Delete(context.Background(), km.ByModel["k1"])
				op.Ret = atomic.AddInt64(&stamp, 1)

				op.Res = "ok"
				if err != nil {
					op.Res = "notfound"
				}

				record(op)
			case x < 8:
				write(2, []string{"k2", "k3"}[rng.Intn(2)], "fresh")
			default:
				op := linOp{ID: int(atomic.AddInt64(&idc, 1)), G: 2, Op: []string{"ExpireAll", "DeleteAll", "Cleanup"}[rng.Intn(3)]}
				op.Call = atomic.AddInt64(&stamp, 1)

				switch op.Op {
				case "ExpireAll":
					be.ExpireAll(context.Background())
				case "DeleteAll":
					be.DeleteAll(context.Background())
				case "Cleanup":
					be.Cleanup()
				}

				op.Ret = atomic.AddInt64(&stamp, 1)
				record(op)
			}
		}

		close(release)
		wg.Wait()

		for _, mk := range models {
			read(0, mk, context.Background())
		}

		sort.Slice(ops, func(i, j int) bool { return ops[i].Call < ops[j].Call })

		_ = enc.Encode(map[string]interface{}{"h": 400000 + hi, "kind": kind, "collide": false, "goroutines": 2, "ops": ops,
			"keys": models, "evict": false, "stalled": "reader"})
		res.Evaluations++
		res.Steps += len(ops)
	}

	res.Extra["reader_stalled_in_run"] = stalled
}
