package harness

import (
	"context"
	"encoding/json"
	"errors"
	"fmt"
	"os"
	"sort"
	"testing"
	"testing/synctest"

	"github.com/bool64/cache"
)

// InvCfg mirrors the CONSTANTS of spec/Invalidation.tla.
type InvCfg struct {
	Names     []string            `json:"Names"`
	Labels    []string            `json:"Labels"`
	Keys      []string            `json:"Keys"`
	Dels      []string            `json:"Dels"`
	NameOfDel map[string]string   `json:"NameOfDel"`
	InitRegd  map[string][]string `json:"InitRegd"`
	Procs     []string            `json:"Procs"`
	ArgsOf    map[string][]string `json:"ArgsOf"`
	Atomic    bool                `json:"Atomic"` // calls run to completion (multi-name configurations)
	// Embedded: the index under test is the one embedded in backend d1 (ShardedMap / SyncMap / ShardedMapOf embed an
	// InvalidationIndex with themselves registered under "default"); d1 cannot be wrapped, so calls are atomic.
	Embedded bool `json:"Embedded"`
}

type invResJ struct {
	Done bool   `json:"done"`
	N    int    `json:"n"`
	Err  string `json:"err"`
}

type invStepJ struct {
	P    string   `json:"p"`
	Name string   `json:"name"`
	A    string   `json:"a"`
	B    string   `json:"b"`
	C    []string `json:"c"`
	Pcb  string   `json:"pcb"`
	Pca  string   `json:"pca"`
	End  bool     `json:"end"`
	Res  invResJ  `json:"res"`
	Gd   string   `json:"gd"`
	Gk   string   `json:"gk"`
	St   struct {
		Cont map[string][]string `json:"cont"`
	} `json:"st"`
}

type gateDeleter struct {
	s     *sched
	id    string
	inner cache.Deleter
}

func (g *gateDeleter) Delete(ctx context.Context, key []byte) error {
	p, mk := procOf(ctx), g.s.mkey(key)

	c := g.s.gate(p, "delete", mk, g.id, 0)
	if c.fault {
		g.s.rec(Event{Ev: "delete", P: p, K: mk, V: g.id, C: "fault"})

		return tokErr{tok: "DEL"}
	}

	err := g.inner.Delete(ctx, key)

	switch {
	case err == nil:
		g.s.rec(Event{Ev: "delete", P: p, K: mk, V: g.id, C: "ok"})
	case errors.Is(err, cache.ErrNotFound):
		g.s.rec(Event{Ev: "delete", P: p, K: mk, V: g.id, C: "notfound"})
	default:
		g.s.rec(Event{Ev: "delete", P: p, K: mk, V: g.id, C: "error", Err: err.Error()})
	}

	return err
}

type invRun struct {
	cfg   InvCfg
	s     *sched
	km    *KeyMap
	idx   *cache.InvalidationIndex
	bes   map[string]Backend
	res   map[string]*invResJ
	kb    KeyBuf
	drift []string
}

func (r *invRun) contents() map[string][]string {
	m := map[string][]string{}

	for d, be := range r.bes {
		ks := []string{}

		_, _ = be.Walk(func(e Ent) error {
			ks = append(ks, r.s.mkey(e.K))

			return nil
		})

		sort.Strings(ks)
		m[d] = ks
	}

	return m
}

func (r *invRun) driftf(f string, a ...interface{}) { r.drift = append(r.drift, fmt.Sprintf(f, a...)) }

func (r *invRun) startCall(p string) {
	ctx := context.WithValue(context.Background(), procKey{}, p)
	args := append([]string(nil), r.cfg.ArgsOf[p]...)

	r.s.rec(Event{Ev: "invcall", P: p, Note: fmt.Sprint(args)})

	go func() {
		res := &invResJ{Done: true}

		func() {
			defer func() {
				if x := recover(); x != nil {
					res.Err = fmt.Sprintf("PANIC: %v", x)
				}
			}()

			n, err := r.idx.InvalidateByLabels(ctx, args...)
			res.N = n
			res.Err = errTok(err)
		}()

		r.s.mu.Lock()
		r.res[p] = res
		r.s.mu.Unlock()
		r.s.rec(Event{Ev: "invret", P: p, N: res.N, Err: res.Err})
	}()
}

func (r *invRun) result(p string) invResJ {
	r.s.mu.Lock()
	defer r.s.mu.Unlock()

	if x := r.res[p]; x != nil {
		return *x
	}

	return invResJ{}
}

func (r *invRun) exec(b []invStepJ) {
	type macro struct{ first, last invStepJ }

	var (
		ms  []macro
		cur *macro
	)

	for _, e := range b {
		if cur == nil {
			cur = &macro{first: e}
		}

		cur.last = e

		if e.End {
			ms = append(ms, *cur)
			cur = nil
		}
	}

	for i, m := range ms {
		f, l := m.first, m.last
		where := fmt.Sprintf("step %d %s(%s %s %s)", i, f.Name, f.P, f.A, f.B)

		switch {
		case f.P == "" && f.Name == "AddLabels":
			if os.Getenv("VERIF_PLAINKEYS") != "" { // control run (C09): a fresh slice per call, never touched again
				r.idx.AddLabels(f.A, append([]byte(nil), r.km.ByModel[f.B]...), f.C...)

				break
			}

			key := r.kb.Get(r.km.ByModel[f.B])
			r.idx.AddLabels(f.A, key, f.C...)
			r.kb.Scramble()
		case f.P == "" && f.Name == "AddCache":
			r.idx.AddCache(f.A, &gateDeleter{s: r.s, id: f.B, inner: r.bes[f.B].Raw().(cache.Deleter)})
		case f.P == "" && f.Name == "Put":
			_ = r.bes[f.A].Write(context.Background(), r.km.ByModel[f.B], "v1")
		case f.Name == "Snapshot":
			r.startCall(f.P)
		case f.Name == "Delete":
			a := r.s.parkedAt(f.P)
			if a == nil {
				r.driftf("%s: call is not parked at a Delete call-out", where)

				return
			}

			r.s.release(f.P, gcmd{fault: len(f.C) > 0 && f.C[0] == "fault", ok: true})
		default:
			r.driftf("%s: unexpected macro-step head", where)

			return
		}

		synctest.Wait()

		if f.P != "" {
			a := r.s.parkedAt(f.P)

			switch {
			case l.Pca == "delete":
				if a == nil {
					r.driftf("%s: call should be parked at Delete(%s) on %s, it is not (result %+v)", where, l.Gk, l.Gd, r.result(f.P))
				} else if a.key != l.Gk || a.v != l.Gd {
					r.driftf("%s: call parked at Delete(%s) on %s, model Delete(%s) on %s", where, a.key, a.v, l.Gk, l.Gd)
				}
			default:
				if a != nil {
					r.driftf("%s: call parked at Delete(%s) on %s, model says it returned", where, a.key, a.v)
				}
			}

			got := r.result(f.P)
			if got != l.Res {
				r.driftf("%s: InvalidateByLabels returned %+v, model %+v", where, got, l.Res)
			}
		}

		want := map[string][]string{}
		for d := range r.bes {
			ks := append([]string{}, l.St.Cont[d]...)
			sort.Strings(ks)
			want[d] = ks
		}

		if got := r.contents(); fmt.Sprint(got) != fmt.Sprint(want) {
			r.driftf("%s: cache contents %v, model %v", where, got, want)
		}

		if len(r.drift) > 0 {
			return
		}
	}
}

// TestInvReplay: VERIF_CFG (InvCfg), VERIF_IN (schedules), VERIF_OUT (Result), VERIF_TRACE_OUT.
func TestInvReplay(t *testing.T) {
	in := os.Getenv("VERIF_IN")
	if in == "" {
		t.Skip("VERIF_IN not set")
	}

	var cfg InvCfg
	mustNoErr(readJSON(os.Getenv("VERIF_CFG"), &cfg), "read cfg")

	seed := envInt("VERIF_SEED", 1)
	res := Result{Extra: map[string]interface{}{}}

	defer func() { mustNoErr(writeJSON(os.Getenv("VERIF_OUT"), res), "write result") }()

	var behs [][]invStepJ

	err := readLines(in, func(line []byte) error {
		var b []invStepJ
		if err := json.Unmarshal(line, &b); err != nil {
			return err
		}

		behs = append(behs, b)

		return nil
	})
	if err != nil {
		res.Fatal = "load schedules: " + err.Error()

		return
	}

	traceOut, err := os.Create(os.Getenv("VERIF_TRACE_OUT"))
	mustNoErr(err, "trace out")

	defer traceOut.Close()

	for bi, b := range behs {
		km, err := NewKeyMap(seed+int64(bi), false, cfg.Keys)
		mustNoErr(err, "keymap")

		s := newSched(km, 0, nil)
		s.steer = !cfg.Atomic
		r := &invRun{cfg: cfg, s: s, km: km, idx: cache.NewInvalidationIndex(), bes: map[string]Backend{},
			res: map[string]*invResJ{}}

		for i, d := range cfg.Dels {
			kind := []string{"ShardedMap", "SyncMap", "ShardedMapOf"}[(i+bi)%3]
			r.bes[d] = NewBackend(kind, cache.Config{Name: d})
		}

		if cfg.Embedded {
			r.idx = r.bes["d1"].Index()
		}

		for _, n := range cfg.Names {
			for _, d := range cfg.InitRegd[n] {
				if cfg.Embedded && d == "d1" {
					continue // registered by the backend's constructor
				}

				r.idx.AddCache(n, &gateDeleter{s: s, id: d, inner: r.bes[d].Raw().(cache.Deleter)})
			}
		}

		synctest.Test(t, func(t *testing.T) {
			r.exec(b)

			// let parked calls finish so that the bubble can end
			for i := 0; i < 1000 && len(s.anyParked()) > 0; i++ {
				s.release(s.anyParked()[0], gcmd{ok: true})
				synctest.Wait()
			}
		})

		res.Evaluations++
		res.Steps += len(b)

		if len(r.drift) == 0 {
			res.Lockstep++
		} else {
			sig := "inv|" + r.drift[0]
			if len(sig) > 90 {
				sig = sig[:90]
			}

			res.Violations = append(res.Violations, Violation{Prop: "C15", Behaviour: bi, What: r.drift[0], Sig: sig,
				Replay: map[string]interface{}{"cfg": cfg, "schedule": b, "events": s.events}})
		}

		faulty := false
		for _, e := range b {
			if e.Name == "PutBack" {
				faulty = true
			}
		}

		if faulty {
			res.Distinct++
		}

		if len(res.Samples) < 2 {
			res.Samples = append(res.Samples, b)
		}

		line, _ := json.Marshal(map[string]interface{}{"b": bi, "drift": r.drift, "events": s.events})
		_, _ = traceOut.Write(append(line, '\n'))
	}
}
