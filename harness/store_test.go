package harness

import (
	"bytes"
	"context"
	"encoding/json"
	"errors"
	"fmt"
	"math/rand"
	"os"
	"sort"
	"strings"
	"sync/atomic"
	"testing"
	"testing/synctest"
	"time"

	"github.com/bool64/cache"
)

// StoreCfg mirrors the CONSTANTS of spec/Store.tla; the orchestrator writes the same values
// into the TLC configuration and into this file, so model and code run the same setup.
type StoreCfg struct {
	Keys        []string `json:"Keys"`
	CfgTTL      int      `json:"CfgTTL"`
	Unlimited   bool     `json:"Unlimited"`
	DEA         int      `json:"DEA"`
	CountLimit  int      `json:"CountLimit"`
	FracNum     int      `json:"FracNum"`
	FracDen     int      `json:"FracDen"`
	Strategy    string   `json:"Strategy"`
	EvictNeeded bool     `json:"EvictNeeded"`
	ForceEvict  bool     `json:"ForceEvict"` // a memory soft limit of one byte: breached in every cycle
	ForceKind   string   `json:"ForceKind"`  // heap | sys
	JobBelowDEA bool     `json:"JobBelowDEA"`
	DEADefault  bool     `json:"DEADefault"` // DeleteExpiredAfter left unset: the library default of 24 h (= DEA ticks of UnitSec)
	Logger      bool     `json:"Logger"`     // attach a logger that accepts every level (call-outs of the backend)
	Collide     bool     `json:"Collide"`
	Hash        string   `json:"Hash"`   // HashInj | HashColl: the model's hash function
	Jitter      float64  `json:"Jitter"` // -1 disabled, 0 library default
	UnitSec     int      `json:"UnitSec"`
	Kinds       []string `json:"Kinds"`
	BaseProp    string   `json:"BaseProp"`    // property judged by non-cleanup, non-metric steps
	CleanupProp string   `json:"CleanupProp"` // property judged by Cleanup steps
}

type opJ struct {
	Name string `json:"name"`
	K    string `json:"k"`
	V    string `json:"v"`
	TTL  int    `json:"ttl"`
	Skip bool   `json:"skip"`
}

type repJ struct {
	R string `json:"r"`
	V string `json:"v"`
	E int    `json:"e"`
	N int    `json:"n"`
}

type entJ struct {
	K string `json:"k"`
	V string `json:"v"`
	E int    `json:"e"`
	C int    `json:"c"`
}

type stepJ struct {
	Op    opJ            `json:"op"`
	Reply repJ           `json:"reply"`
	Now   int            `json:"now"`
	St    []entJ         `json:"st"`
	Met   map[string]int `json:"met"`
}

func sortEnts(e []entJ) {
	sort.Slice(e, func(i, j int) bool { return e[i].K < e[j].K })
}

func (c StoreCfg) unit() time.Duration {
	if c.UnitSec == 0 {
		return time.Hour
	}

	return time.Duration(c.UnitSec) * time.Second
}

func (c StoreCfg) cacheConfig(name string, st cache.StatsTracker, needed *bool) cache.Config {
	u := c.unit()
	cc := cache.Config{
		Name:                     name,
		Stats:                    st,
		DeleteExpiredAfter:       time.Duration(c.DEA) * u,
		DeleteExpiredJobInterval: 1000 * time.Hour,
		ItemsCountReportInterval: 1000 * time.Hour,
		ExpirationJitter:         c.Jitter,
		CountSoftLimit:           uint64(c.CountLimit),
	}

	if c.DEADefault {
		if time.Duration(c.DEA)*u != 24*time.Hour {
			panic("DEADefault needs DEA ticks of UnitSec to be 24 h")
		}

		cc.DeleteExpiredAfter = 0
	}

	// A job interval BELOW DeleteExpiredAfter (the usual production set-up; the janitor goroutine still never fires
	// during a run: at least one hour of real time): the boundary stays now - DeleteExpiredAfter.
	if c.JobBelowDEA && c.DEA >= 2 {
		cc.DeleteExpiredJobInterval = time.Duration(c.DEA-1) * u
	}

	if c.Unlimited {
		cc.TimeToLive = cache.UnlimitedTTL
	} else {
		cc.TimeToLive = TickDur(c.CfgTTL, u)
	}

	if c.FracDen != 0 {
		cc.EvictFraction = float64(c.FracNum) / float64(c.FracDen)
	}

	switch c.Strategy {
	case "lru":
		cc.EvictionStrategy = cache.EvictLeastRecentlyUsed
	case "lfu":
		cc.EvictionStrategy = cache.EvictLeastFrequentlyUsed
	}

	if c.EvictNeeded {
		cc.EvictionNeeded = func() bool { return *needed }
	}

	if c.ForceEvict {
		if c.ForceKind == "sys" {
			cc.SysMemSoftLimit = 1
		} else {
			cc.HeapInUseSoftLimit = 1
		}
	} else {
		// limits that are configured but never reached must never trigger - both, only one of them, or none configured
		switch c.ForceKind {
		case "heap":
			cc.HeapInUseSoftLimit = 1 << 62
		case "sys":
			cc.SysMemSoftLimit = 1 << 62
		case "none":
		default:
			cc.HeapInUseSoftLimit, cc.SysMemSoftLimit = 1<<62, 1<<62
		}
	}

	if c.Logger {
		cc.Logger = sinkLogger{}
	}

	return cc
}

// relayNext: ShardedMap and SyncMap relay to each other, ShardedMapOf[V] to itself (C13).
var relayNext = map[string]string{"ShardedMap": "SyncMap", "SyncMap": "ShardedMap", "ShardedMapOf": "ShardedMapOf"}

// storeRun replays one behaviour on one backend inside a synctest bubble.
type storeRun struct {
	mk     func(kind string) Backend
	cfg    StoreCfg
	km     *KeyMap
	be     Backend
	stat   *StatRec
	needed bool
	t0     time.Time
	u      time.Duration
	kb     KeyBuf
	nctx   int // rotates the way the context TTL of an operation is built
	obs    []stepJ
	plain  bool // control run: fresh key slices, no scrambling
	live   bool // the real janitor goroutine is running: Walk and Len are not taken at the same instant
}

func (r *storeRun) project(stepIdx int) ([]entJ, string) {
	var (
		got  = []entJ{}
		prob string
	)

	n, err := r.be.Walk(func(e Ent) error {
		mk, ok := r.km.ByReal[string(e.K)]
		if !ok {
			prob = fmt.Sprintf("Walk reports a key that was never written: %q", e.K)
			mk = fmt.Sprintf("?%x", e.K)
		}

		if e.E != 0 && e.EAt.UnixNano() != e.E {
			prob = fmt.Sprintf("ExpireAt() %v differs from entry expiry %d", e.EAt, e.E)
		}

		c := int(e.C)
		if r.cfg.Strategy == "lru" && e.C != 0 {
			c = int(((e.C - r.t0.UnixNano()) % int64(r.u)) / int64(Eps))
		}

		got = append(got, entJ{K: mk, V: e.V, E: TickOf(e.E, r.t0, r.u), C: c})

		return nil
	})
	if err != nil {
		prob = "Walk failed: " + err.Error()
	}

	if n != len(got) {
		prob = fmt.Sprintf("Walk returned count %d but visited %d entries", n, len(got))
	}

	if l := r.be.Len(); !r.live && l != len(got) && prob == "" {
		prob = fmt.Sprintf("Len() = %d but Walk visited %d entries", l, len(got))
	}

	sortEnts(got)

	return got, prob
}

func (r *storeRun) metrics() map[string]int {
	name := "store"

	return map[string]int{
		"hit":     r.stat.Total(cache.MetricHit, name),
		"miss":    r.stat.Total(cache.MetricMiss, name),
		"expired": r.stat.Total(cache.MetricExpired, name),
		"write":   r.stat.Total(cache.MetricWrite, name),
		"delete":  r.stat.Total(cache.MetricDelete, name),
		"evict":   r.stat.Total(cache.MetricEvict, name),
	}
}

// exec performs the operation of one step and returns the observed reply.
var (
	storeProgress int64        // operations finished so far (watchdog of TestStoreReplay)
	storeInOp     int64        // an operation is in progress
	storeCurrent  atomic.Value // description of the operation in progress
)

func (r *storeRun) exec(st stepJ) repJ {
	storeCurrent.Store(fmt.Sprintf("%s after %d operations on %s: %s", r.be.Kind(), len(r.obs), r.cfg.Strategy, st.Op.Name))
	atomic.StoreInt64(&storeInOp, 1)

	defer func() {
		atomic.StoreInt64(&storeInOp, 0)
		atomic.AddInt64(&storeProgress, 1)
	}()

	ctx := context.Background()
	op := st.Op

	// The effective context TTL is built in several ways: directly; on top of an OUTER context that carries another
	// TTL (the inner WithTTL shadows it, also when the inner one is the default 0); through an update of a larger cell.
	r.nctx++

	switch {
	case op.TTL != 0 && r.nctx%3 == 1:
		ctx = cache.WithTTL(cache.WithTTL(ctx, -7*r.u, false), TickDur(op.TTL, r.u), false)
	case op.TTL < 0 && r.nctx%3 == 2:
		// a negative TTL that later meets a positive update keeps its value ("the minimal non-zero value is kept")
		ctx = cache.WithTTL(ctx, TickDur(op.TTL, r.u), false)
		_ = cache.WithTTL(ctx, 5*r.u, true)
	case op.TTL != 0:
		ctx = cache.WithTTL(ctx, TickDur(op.TTL, r.u), true)
	case r.nctx%3 == 1:
		ctx = cache.WithTTL(cache.WithTTL(ctx, []time.Duration{-5 * r.u, 9 * r.u}[r.nctx%2], false), cache.DefaultTTL, false)
	}

	if op.Skip && op.Name == "Read" {
		ctx = cache.WithSkipRead(ctx)
	}

	if op.Name == "Delete" && r.nctx%3 == 0 { // SkipRead is about reads: a Delete under such a context deletes
		ctx = cache.WithSkipRead(ctx)
	}

	var key []byte
	if op.K != "" {
		if r.plain {
			key = append([]byte(nil), r.km.ByModel[op.K]...)
		} else {
			key = r.kb.Get(r.km.ByModel[op.K])
			defer r.kb.Scramble()
		}
	}

	switch op.Name {
	case "Write":
		if err := r.be.Write(ctx, key, op.V); err != nil {
			return repJ{R: "error:" + err.Error()}
		}

		return repJ{R: "ok"}
	case "Store":
		r.be.Store(key, op.V)

		return repJ{R: "ok"}
	case "Read":
		rr := r.be.Read(ctx, key)
		switch rr.Class {
		case "hit":
			return repJ{R: "hit", V: rr.V}
		case "expired":
			return repJ{R: "expired", V: rr.V, E: TickOf(rr.EAt.UnixNano(), r.t0, r.u)}
		case "notfound":
			return repJ{R: "notfound"}
		}

		return repJ{R: "error:" + rr.Err.Error()}
	case "Load":
		v, ok := r.be.Load(key)
		if ok {
			return repJ{R: "hit", V: v}
		}

		if v != "" {
			return repJ{R: "error:" + v}
		}
		// Load folds ErrNotFound and ErrExpired into ok=false; the model's reply is mapped the same way by the caller.
		return repJ{R: "notok"}
	case "Delete":
		err := r.be.Delete(ctx, key)
		if err == nil {
			return repJ{R: "ok"}
		}

		if errors.Is(err, cache.ErrNotFound) {
			return repJ{R: "notfound"}
		}

		return repJ{R: "error:" + err.Error()}
	case "ExpireAll":
		r.be.ExpireAll(ctx)

		return repJ{R: "ok"}
	case "DeleteAll":
		r.be.DeleteAll(ctx)

		return repJ{R: "ok"}
	case "Len":
		return repJ{R: "n", N: r.be.Len()}
	case "Walk":
		n, err := r.be.Walk(func(Ent) error { return nil })
		if err != nil {
			return repJ{R: "error:" + err.Error()}
		}

		return repJ{R: "n", N: n}
	case "Tick":
		time.Sleep(r.u)

		return repJ{R: "ok"}
	case "WalkStop":
		stop := errors.New("stop")

		n, err := r.be.Walk(func(Ent) error { return stop })
		if err == nil {
			return repJ{R: "n", N: n}
		}

		if !errors.Is(err, stop) {
			return repJ{R: "error:" + err.Error()}
		}

		return repJ{R: "stopped", N: n}
	case "Relay":
		// Dump through gob, restore into a NEW empty cache of the same family, carry on with that one.
		var buf bytes.Buffer

		n1, err := r.be.Dump(&buf)
		if err != nil {
			return repJ{R: "error:dump:" + err.Error()}
		}

		next := r.mk(relayNext[r.be.Kind()])

		n2, err := next.Restore(&buf)
		if err != nil {
			return repJ{R: "error:restore:" + err.Error()}
		}

		if n1 != n2 {
			return repJ{R: fmt.Sprintf("error:dump reported %d entries, restore %d", n1, n2)}
		}

		r.be = next

		return repJ{R: "n", N: n1}
	case "RelaySelf":
		// Dump through gob and restore into the SAME cache, which is in use: every entry is replaced by a copy of itself.
		var buf bytes.Buffer

		n1, err := r.be.Dump(&buf)
		if err != nil {
			return repJ{R: "error:dump:" + err.Error()}
		}

		n2, err := r.be.Restore(&buf)
		if err != nil {
			return repJ{R: "error:restore:" + err.Error()}
		}

		if n1 != n2 {
			return repJ{R: fmt.Sprintf("error:dump reported %d entries, restore %d", n1, n2)}
		}

		return repJ{R: "n", N: n1}
	case "Cleanup":
		before := r.stat.Total(cache.MetricEvict, "store")
		r.needed = op.Skip
		r.be.Cleanup()
		r.needed = false

		return repJ{R: "n", N: r.stat.Total(cache.MetricEvict, "store") - before}
	}

	return repJ{R: "error:unknown op " + op.Name}
}

func (r *storeRun) classify(st stepJ, what string) string {
	if what == "metrics" {
		return "C18"
	}

	if st.Op.Name == "Cleanup" {
		return r.cfg.CleanupProp
	}

	if st.Op.Name == "Relay" || st.Op.Name == "RelaySelf" {
		return "C13" // dump / restore fidelity, whatever family the behaviour belongs to
	}

	if r.cfg.BaseProp == "C09" {
		// Key isolation is blamed only where it can be the cause: the operation names one of the colliding keys, Walk
		// reported a key nobody wrote, or the entry of ANOTHER key than the operation's changed.  Anything else is the
		// sequential map semantics (C07).
		if what == "walk" || (r.cfg.Collide && (st.Op.K == "k1" || st.Op.K == "k2")) || what == "state-other-key" {
			return "C09"
		}

		return "C07"
	}

	return r.cfg.BaseProp
}

// otherKeyDiffers: do expected and observed contents differ for a key other than k?
func otherKeyDiffers(exp, got []entJ, k string) bool {
	m := map[string]entJ{}
	for _, e := range exp {
		m[e.K] = e
	}

	seen := map[string]bool{}

	for _, g := range got {
		seen[g.K] = true

		if g.K != k && m[g.K] != g {
			return true
		}
	}

	for _, e := range exp {
		if e.K != k && !seen[e.K] {
			return true
		}
	}

	return false
}

// run replays the behaviour; it returns the first violation (or nil) and the number of steps that agreed.
func (r *storeRun) run(t *testing.T, bi int, steps []stepJ) (*Violation, int) {
	var (
		viol *Violation
		okN  int
	)

	defer func() {
		if p := recover(); p != nil {
			viol = &Violation{Prop: r.cfg.BaseProp, Backend: r.be.Kind(), Behaviour: bi, Step: okN,
				What: fmt.Sprintf("panic in library code: %v", p)}
		}
	}()

	synctest.Test(t, func(t *testing.T) {
		r.t0 = time.Now()

		for i, st := range steps {
			time.Sleep(Eps)

			got := r.exec(st)
			want := st.Reply

			if st.Op.Name == "Load" && want.R != "hit" {
				want = repJ{R: "notok"}
			}

			fail := func(what string, w, g interface{}) {
				viol = &Violation{Prop: r.classify(st, what), Backend: r.be.Kind(), Behaviour: bi, Step: i,
					What: fmt.Sprintf("%s after %s(%s)", what, st.Op.Name, st.Op.K), Want: w, Got: g,
					Sig: fmt.Sprintf("%s/%s/%s", r.be.Kind(), st.Op.Name, what)}
			}

			wantNow := time.Duration(st.Now)*r.u + time.Duration(i+1)*Eps
			if d := time.Since(r.t0); d != wantNow {
				panic(fmt.Sprintf("harness clock drift: %v != %v", d, wantNow))
			}

			ents, prob := r.project(i)
			obs := stepJ{Op: st.Op, Reply: got, Now: st.Now, St: ents, Met: r.metrics()}
			r.obs = append(r.obs, obs)

			if got != want {
				fail("reply", want, got)

				return
			}

			if prob != "" {
				fail("walk", nil, prob)

				return
			}

			exp := append([]entJ(nil), st.St...)
			sortEnts(exp)

			if fmt.Sprint(exp) != fmt.Sprint(ents) {
				if st.Op.K != "" && otherKeyDiffers(exp, ents, st.Op.K) {
					fail("state-other-key", exp, ents)
				} else {
					fail("state", exp, ents)
				}

				// Only the usage counters (LRU stamp / LFU count) differ: that is the rank bookkeeping of eviction.
				if r.cfg.CleanupProp == "C12" && sameButCounters(exp, ents) {
					viol.Prop = "C12"
				}

				return
			}

			if st.Met != nil {
				gm := obs.Met
				for k, v := range st.Met {
					if gm[k] != v {
						fail("metrics", st.Met, gm)

						return
					}
				}
			}

			okN++
		}
	})

	return viol, okN
}

// sinkLogger accepts every level and formats the message (a logger that looks at its arguments).
type sinkLogger struct{}

func (sinkLogger) Error(_ context.Context, msg string, kv ...interface{}) { _ = fmt.Sprint(msg, kv) }
func (sinkLogger) Warn(_ context.Context, msg string, kv ...interface{})  { _ = fmt.Sprint(msg, kv) }
func (sinkLogger) Debug(_ context.Context, msg string, kv ...interface{}) { _ = fmt.Sprint(msg, kv) }
func (sinkLogger) Important(_ context.Context, msg string, kv ...interface{}) {
	_ = fmt.Sprint(msg, kv)
}

func sameButCounters(a, b []entJ) bool {
	if len(a) != len(b) {
		return false
	}

	for i := range a {
		if a[i].K != b[i].K || a[i].V != b[i].V || a[i].E != b[i].E {
			return false
		}
	}

	return true
}

func loadBehaviours(path string) ([][]stepJ, error) {
	var res [][]stepJ

	err := readLines(path, func(line []byte) error {
		var b []stepJ
		if err := json.Unmarshal(line, &b); err != nil {
			return err
		}

		res = append(res, b)

		return nil
	})

	return res, err
}

// nontrivial: the behaviour contains at least one expired read, one deletion by the janitor/eviction, or one collision-relevant step.
func behaviourTraits(b []stepJ) (expiredRead, removal bool) {
	prev := 0

	for _, s := range b {
		if s.Reply.R == "expired" {
			expiredRead = true
		}

		if s.Op.Name == "Cleanup" && len(s.St) < prev {
			removal = true
		}

		prev = len(s.St)
	}

	return
}

// TestStoreReplay: VERIF_CFG (StoreCfg json), VERIF_IN (behaviours, one JSON array per line),
// VERIF_OUT (Result json), VERIF_TRACE_OUT (optional: observed traces as ndjson), VERIF_SEED.
func TestStoreReplay(t *testing.T) {
	in := os.Getenv("VERIF_IN")
	if in == "" {
		t.Skip("VERIF_IN not set")
	}

	var cfg StoreCfg
	mustNoErr(readJSON(os.Getenv("VERIF_CFG"), &cfg), "read cfg")

	seed := envInt("VERIF_SEED", 1)
	res := Result{Extra: map[string]interface{}{}}

	defer func() { mustNoErr(writeJSON(os.Getenv("VERIF_OUT"), res), "write result") }()

	behs, err := loadBehaviours(in)
	if err != nil {
		res.Fatal = "load behaviours: " + err.Error()

		return
	}

	// Watchdog on the REAL clock (this goroutine lives outside the bubbles): a sequential operation takes microseconds;
	// if none has finished for two minutes the operation in progress never returns (a lock that was never released).
	go func() {
		last, since := atomic.LoadInt64(&storeProgress), time.Now()

		for {
			time.Sleep(time.Second)

			if n := atomic.LoadInt64(&storeProgress); n != last {
				last, since = n, time.Now()

				continue
			}

			if time.Since(since) < 2*time.Minute || atomic.LoadInt64(&storeInOp) == 0 {
				continue
			}

			what, _ := storeCurrent.Load().(string)
			prop := cfg.BaseProp
			if strings.Contains(what, " Cleanup") {
				prop = cfg.CleanupProp
			}

			res.Violations = append(res.Violations, Violation{Prop: prop, What: "operation never returned: " + what,
				Sig: "hang|" + what[strings.LastIndex(what, " ")+1:], Replay: map[string]interface{}{"cfg": cfg, "where": what}})
			mustNoErr(writeJSON(os.Getenv("VERIF_OUT"), res), "write result")
			os.Exit(0)
		}
	}()

	kinds := cfg.Kinds
	if len(kinds) == 0 {
		kinds = Kinds
	}

	var traceOut *os.File
	if p := os.Getenv("VERIF_TRACE_OUT"); p != "" {
		traceOut, err = os.Create(p)
		mustNoErr(err, "create trace out")

		defer traceOut.Close()
	}

	seen := map[string]bool{}

	for bi, b := range behs {
		km, err := NewKeyMap(seed+int64(bi), cfg.Collide, cfg.Keys)
		if err != nil {
			res.Fatal = "key map: " + err.Error()

			return
		}

		for _, kind := range kinds {
			r := &storeRun{cfg: cfg, km: km, u: cfg.unit(), stat: NewStatRec()}
			mk := func(kind string) Backend { return NewBackend(kind, cfg.cacheConfig("store", r.stat, &r.needed)) }
			r.be = mk(kind)

			// Caches must be constructed outside the bubble (janitor goroutines, finalizers): one spare per Relay step.
			var spares []Backend

			nextKind := kind
			for _, st := range b {
				if st.Op.Name == "Relay" {
					nextKind = relayNext[nextKind]
					spares = append(spares, mk(nextKind))
				}
			}

			r.mk = func(kind string) Backend {
				s := spares[0]
				spares = spares[1:]

				if s.Kind() != kind {
					panic("harness: spare backend of wrong kind")
				}

				return s
			}

			v, okN := r.run(t, bi, b)
			res.Evaluations++
			res.Steps += okN

			// Control for key isolation (model hash injective): the same behaviour with keys that do not collide and a
			// fresh, never reused key slice per call.  If it fails at the same step, collisions / buffer reuse are not
			// the cause: the mismatch belongs to the sequential map semantics (C07).
			if v != nil && v.Prop == "C09" && cfg.Hash != "HashColl" {
				km2, err := NewKeyMap(seed+int64(bi)+7777, false, cfg.Keys)
				if err == nil {
					r2 := &storeRun{cfg: cfg, km: km2, u: cfg.unit(), stat: NewStatRec(), plain: true}
					mk2 := func(kind string) Backend { return NewBackend(kind, cfg.cacheConfig("store", r2.stat, &r2.needed)) }
					r2.be = mk2(kind)

					var spares2 []Backend

					nk := kind
					for _, st := range b {
						if st.Op.Name == "Relay" {
							nk = relayNext[nk]
							spares2 = append(spares2, mk2(nk))
						}
					}

					r2.mk = func(string) Backend {
						s := spares2[0]
						spares2 = spares2[1:]

						return s
					}

					if v2, _ := r2.run(t, bi, b); v2 != nil && v2.Step == v.Step {
						v.Prop = "C07"
					}
				}
			}

			if v != nil {
				keys := map[string]string{}
				for m, k := range km.ByModel {
					keys[m] = fmt.Sprintf("%x", k)
				}

				v.Replay = map[string]interface{}{"cfg": cfg, "behaviour": b, "keys": keys, "observed": r.obs}
				res.Violations = append(res.Violations, *v)
			} else {
				res.Lockstep++
			}

			if traceOut != nil {
				line, _ := json.Marshal(map[string]interface{}{"kind": kind, "b": bi, "steps": r.obs, "ok": v == nil})
				_, _ = traceOut.Write(append(line, '\n'))
			}
		}

		er, rm := behaviourTraits(b)
		if er || rm {
			h, _ := json.Marshal(b)
			if !seen[string(h)] {
				seen[string(h)] = true
				res.Distinct++
			}
		}

		if len(res.Samples) < 2 {
			res.Samples = append(res.Samples, b)
		}
	}
}

// TestJanitorLoop records operation sequences on backends whose REAL janitor goroutine runs every 2 ms on the real
// clock (no hook, no virtual time): TTL classes +2 ticks (fresh), -1 (just expired), -5 (expired longer than
// DeleteExpiredAfter = 2 ticks), tick = 1 h, so nothing changes class during the milliseconds a run takes.  A recorded
// "Cleanup" step waits for two increments of a cycle counter (EvictionNeeded callback), i.e. at least one complete cycle.
func TestJanitorLoop(t *testing.T) {
	outp := os.Getenv("VERIF_TRACE_OUT")
	if outp == "" || os.Getenv("VERIF_JANITOR") == "" {
		t.Skip("VERIF_JANITOR not set")
	}

	seed := envInt("VERIF_SEED", 1)
	n := int(envInt("VERIF_N", 30))
	res := Result{Extra: map[string]interface{}{}}

	defer func() { mustNoErr(writeJSON(os.Getenv("VERIF_OUT"), res), "write result") }()

	f, err := os.Create(outp)
	mustNoErr(err, "trace out")

	defer f.Close()

	enc := json.NewEncoder(f)
	models := []string{"k1", "k2", "k3", "k4"}
	u := time.Hour
	stuck := 0

	for bi := 0; bi < n; bi++ {
		rng := rand.New(rand.NewSource(seed*9973 + int64(bi))) //nolint:gosec
		kind := Kinds[bi%3]
		unlimited := bi%2 == 1

		km, err := NewKeyMap(seed+int64(bi), false, models)
		mustNoErr(err, "keymap")

		var cycles int64

		stat := NewStatRec()
		cc := cache.Config{Name: "store", Stats: stat, TimeToLive: TickDur(2, u), ExpirationJitter: -1,
			DeleteExpiredAfter: 2 * u, DeleteExpiredJobInterval: 2 * time.Millisecond,
			ItemsCountReportInterval: 2 * time.Millisecond, // the cache_items gauge is reported by its own goroutine
			EvictionNeeded:           func() bool { atomic.AddInt64(&cycles, 1); return false }}
		if unlimited {
			cc.TimeToLive = cache.UnlimitedTTL
		}

		cfg := StoreCfg{Keys: models, Strategy: "expired"}
		r := &storeRun{cfg: cfg, km: km, u: u, stat: stat, t0: time.Now(), live: true}
		r.be = NewBackend(kind, cc)

		var steps []stepJ

		for i := 0; i < 25; i++ {
			st := stepJ{Now: 0}

			switch x := rng.Intn(10); {
			case x < 4:
				st.Op = opJ{Name: "Write", K: models[rng.Intn(4)], V: []string{"v1", "v2"}[rng.Intn(2)], TTL: []int{0, 2, -1, -5, -5}[rng.Intn(5)]}
			case x < 6:
				st.Op = opJ{Name: "Read", K: models[rng.Intn(4)]}
			case x < 7:
				st.Op = opJ{Name: "Delete", K: models[rng.Intn(4)]}
			case x < 8:
				st.Op = opJ{Name: "ExpireAll"}
			default:
				st.Op = opJ{Name: "Cleanup"}
			}

			var got repJ

			if st.Op.Name == "Cleanup" {
				c0 := atomic.LoadInt64(&cycles)
				deadline := time.Now().Add(2 * time.Second)

				for atomic.LoadInt64(&cycles) < c0+2 && time.Now().Before(deadline) {
					time.Sleep(200 * time.Microsecond)
				}

				_, g0 := stat.Gauge(cache.MetricItems, "store")
				for time.Now().Before(deadline) {
					if _, g := stat.Gauge(cache.MetricItems, "store"); g >= g0+2 {
						break
					}

					time.Sleep(200 * time.Microsecond)
				}

				_, g1 := stat.Gauge(cache.MetricItems, "store")

				if atomic.LoadInt64(&cycles) < c0+2 || g1 < g0+2 {
					stuck++ // janitor / items reporter did not run twice in 2 s: recorded as what it is, a non-event

					continue
				}

				got = repJ{R: "n", N: 0}
			} else {
				got = r.exec(st)
			}

			ents, prob := r.project(i)
			if prob != "" {
				got = repJ{R: "error:" + prob}
			}

			sj := stepJ{Op: st.Op, Reply: got, Now: 0, St: ents, Met: r.metrics()}
			if st.Op.Name == "Cleanup" {
				// cache_items as last reported (two reports have happened since the janitor finished its cycles)
				items, _ := stat.Gauge(cache.MetricItems, "store")
				sj.Met["items"] = items
			} else {
				sj.Met["items"] = -1
			}

			steps = append(steps, sj)
		}

		_ = enc.Encode(map[string]interface{}{"b": bi, "kind": kind, "unlimited": unlimited, "steps": steps})
		res.Evaluations++
		res.Steps += len(steps)
	}

	res.Extra["cleanup_steps_without_two_cycles"] = stuck
}

// TestStoreFree: operation sequences chosen by a Go random generator (not by TLC) for random eviction parameters -
// CountSoftLimit 0..6, EvictFraction = n/1000 for arbitrary n, three strategies, EvictionNeeded on/off - executed on
// virtual time; the observed trace of each run is validated by TLC (StoreTrace) with that run's constants and
// FloatSlack = TRUE (the evicted amount may be off by one, ties are resolved by the code).  Pure code -> model direction.
func TestStoreFree(t *testing.T) {
	outp := os.Getenv("VERIF_TRACE_OUT")
	if outp == "" || os.Getenv("VERIF_STOREFREE") == "" {
		t.Skip("VERIF_STOREFREE not set")
	}

	seed := envInt("VERIF_SEED", 1)
	n := int(envInt("VERIF_N", 16))
	res := Result{Extra: map[string]interface{}{}}

	defer func() { mustNoErr(writeJSON(os.Getenv("VERIF_OUT"), res), "write result") }()

	f, err := os.Create(outp)
	mustNoErr(err, "trace out")

	defer f.Close()

	enc := json.NewEncoder(f)
	models := []string{"k1", "k2", "k3", "k4", "k5", "k6"}

	for ri := 0; ri < n; ri++ {
		rng := rand.New(rand.NewSource(seed*8191 + int64(ri))) //nolint:gosec
		cfg := StoreCfg{Keys: models, CfgTTL: 2, DEA: 50, CountLimit: rng.Intn(7), FracDen: 1000,
			FracNum:  []int{1 + rng.Intn(1000), 100, 250, 333, 500, 510, 667, 1000}[rng.Intn(8)],
			Strategy: []string{"expired", "lru", "lfu"}[rng.Intn(3)], EvictNeeded: rng.Intn(2) == 0, Jitter: -1,
			Unlimited: rng.Intn(4) == 0}
		kind := Kinds[ri%3]

		km, err := NewKeyMap(seed+int64(ri), false, models)
		mustNoErr(err, "keymap")

		r := &storeRun{cfg: cfg, km: km, u: cfg.unit(), stat: NewStatRec()}
		r.be = NewBackend(kind, cfg.cacheConfig("store", r.stat, &r.needed))

		var steps []stepJ

		now := 0

		for i := 0; i < 45; i++ {
			st := stepJ{}

			switch x := rng.Intn(20); {
			case x < 8:
				st.Op = opJ{Name: "Write", K: models[rng.Intn(6)], V: []string{"v1", "v2"}[rng.Intn(2)], TTL: []int{0, 0, 1, 2, -1, -2}[rng.Intn(6)]}
			case x < 13:
				st.Op = opJ{Name: "Read", K: models[rng.Intn(6)]}
			case x < 14:
				st.Op = opJ{Name: "Delete", K: models[rng.Intn(6)]}
			case x < 15:
				st.Op = opJ{Name: "ExpireAll"}
			case x < 17 && now < 20:
				st.Op = opJ{Name: "Tick"}
				now++
			default:
				st.Op = opJ{Name: "Cleanup", Skip: cfg.EvictNeeded && rng.Intn(2) == 0}
			}

			st.Now = now
			steps = append(steps, st)
		}

		func() {
			defer func() {
				if p := recover(); p != nil {
					r.obs = append(r.obs, stepJ{Op: opJ{Name: "Panic"}, Reply: repJ{R: fmt.Sprint("error:panic:", p)}, St: []entJ{}})
				}
			}()

			synctest.Test(t, func(t *testing.T) {
				r.t0 = time.Now()

				for i, st := range steps {
					time.Sleep(Eps)

					got := r.exec(st)

					ents, prob := r.project(i)
					if prob != "" {
						got = repJ{R: "error:" + prob}
					}

					r.obs = append(r.obs, stepJ{Op: st.Op, Reply: got, Now: st.Now, St: ents, Met: r.metrics()})
				}
			})
		}()

		_ = enc.Encode(map[string]interface{}{"run": ri, "kind": kind, "cfg": cfg, "steps": r.obs})
		res.Evaluations++
		res.Steps += len(r.obs)
	}
}

// TestStoreOps executes given operation sequences (VERIF_IN: one JSON array of steps per line, only `op` and `now` are
// used) without expectations and records what the real backend did; TLC validates the record (StoreTrace).  Used for
// sequences that are composed by the orchestrator rather than generated by TLC (bulk dump/restore of hundreds of entries).
func TestStoreOps(t *testing.T) {
	in := os.Getenv("VERIF_IN")
	if in == "" || os.Getenv("VERIF_STOREOPS") == "" {
		t.Skip("VERIF_STOREOPS not set")
	}

	var cfg StoreCfg
	mustNoErr(readJSON(os.Getenv("VERIF_CFG"), &cfg), "read cfg")

	seed := envInt("VERIF_SEED", 1)
	res := Result{Extra: map[string]interface{}{}}

	defer func() { mustNoErr(writeJSON(os.Getenv("VERIF_OUT"), res), "write result") }()

	behs, err := loadBehaviours(in)
	mustNoErr(err, "load")

	out, err := os.Create(os.Getenv("VERIF_TRACE_OUT"))
	mustNoErr(err, "trace out")

	defer out.Close()

	enc := json.NewEncoder(out)

	for bi, b := range behs {
		kind := cfg.Kinds[bi%len(cfg.Kinds)]

		// many keys: lengths 0..40, binary and printable, all distinct
		km := &KeyMap{ByModel: map[string][]byte{}, ByReal: map[string]string{}}
		rng := rand.New(rand.NewSource(seed + int64(bi))) //nolint:gosec

		for i, m := range cfg.Keys {
			var k []byte

			for {
				k = make([]byte, rng.Intn(41))
				for j := range k {
					if i%2 == 0 {
						k[j] = byte(rng.Intn(256))
					} else {
						k[j] = byte('a' + rng.Intn(26))
					}
				}

				if _, dup := km.ByReal[string(k)]; !dup {
					break
				}
			}

			km.ByModel[m] = k
			km.ByReal[string(k)] = m
		}

		r := &storeRun{cfg: cfg, km: km, u: cfg.unit(), stat: NewStatRec()}
		mk := func(kind string) Backend { return NewBackend(kind, cfg.cacheConfig("store", r.stat, &r.needed)) }
		r.be = mk(kind)

		var spares []Backend

		nk := kind
		for _, st := range b {
			if st.Op.Name == "Relay" {
				nk = relayNext[nk]
				spares = append(spares, mk(nk))
			}
		}

		r.mk = func(string) Backend {
			s := spares[0]
			spares = spares[1:]

			return s
		}

		synctest.Test(t, func(t *testing.T) {
			r.t0 = time.Now()

			for i, st := range b {
				time.Sleep(Eps)

				got := r.exec(st)

				ents, prob := r.project(i)
				if prob != "" {
					got = repJ{R: "error:" + prob}
				}

				r.obs = append(r.obs, stepJ{Op: st.Op, Reply: got, Now: st.Now, St: ents, Met: r.metrics()})
			}
		})

		_ = enc.Encode(map[string]interface{}{"b": bi, "kind": kind, "steps": r.obs})
		res.Evaluations++
		res.Steps += len(r.obs)
	}
}

// TestBulkClean fills a backend with many entries of four classes under an exact virtual clock, runs one cleanup cycle
// and reports per class what is left (spec/BulkClean.tla).  Sizes are large enough for several thousand long-expired
// entries per shard of the sharded maps.
func TestBulkClean(t *testing.T) {
	outp := os.Getenv("VERIF_TRACE_OUT")
	if outp == "" || os.Getenv("VERIF_BULKCLEAN") == "" {
		t.Skip("VERIF_BULKCLEAN not set")
	}

	seed := envInt("VERIF_SEED", 1)
	total := int(envInt("VERIF_N", 200000))
	res := Result{Extra: map[string]interface{}{}}

	defer func() { mustNoErr(writeJSON(os.Getenv("VERIF_OUT"), res), "write result") }()

	f, err := os.Create(outp)
	mustNoErr(err, "trace out")

	defer f.Close()

	enc := json.NewEncoder(f)

	for ri, kind := range Kinds {
		for _, unlimited := range []bool{false, true} {
			rng := rand.New(rand.NewSource(seed*131 + int64(ri))) //nolint:gosec
			cc := cache.Config{Name: "bulk", TimeToLive: time.Hour, ExpirationJitter: -1, DeleteExpiredAfter: 2 * time.Hour,
				DeleteExpiredJobInterval: 100000 * time.Hour, ItemsCountReportInterval: 100000 * time.Hour}
			if unlimited {
				cc.TimeToLive = cache.UnlimitedTTL
			}

			be := NewBackend(kind, cc)
			n := map[string]int{}
			left := map[string]int{}
			before, lenAfter, written, lost := 0, 0, 0, 0

			synctest.Test(t, func(t *testing.T) {
				ttl := map[string]time.Duration{"fresh": 3 * time.Hour, "recent": -time.Hour, "old": -5 * time.Hour}
				classes := []string{"old", "old", "old", "old", "old", "old", "recent", "fresh", "never"}

				for i := 0; i < total; i++ {
					cls := classes[rng.Intn(len(classes))]
					if cls == "never" && !unlimited {
						cls = "fresh"
					}

					ctx := context.Background()
					if cls != "never" {
						ctx = cache.WithTTL(ctx, ttl[cls], false)
					}

					if cls == "old" && i%3 == 0 { // expired before 1970 (negative unix time): as old as it gets
						ctx = cache.WithTTL(context.Background(), -60*365*24*time.Hour, false)
					}

					_ = be.Write(ctx, []byte(fmt.Sprintf("%s-%07d", cls, i)), "v1")
					n[cls]++
				}

				before = be.Len()

				// while the cycle runs a writer keeps storing fresh keys of its own: every Write that has returned must be
				// readable afterwards (nothing else touches those keys)
				stop := make(chan struct{})
				done := make(chan struct{})

				go func() {
					defer close(done)

					for i := 0; ; i++ {
						select {
						case <-stop:
							return
						default:
						}

						_ = be.Write(cache.WithTTL(context.Background(), 3*time.Hour, false), []byte(fmt.Sprintf("w-%07d", i)), "v1")
						written++
					}
				}()

				be.Cleanup()
				close(stop)
				<-done

				for i := 0; i < written; i++ {
					if rr := be.Read(context.Background(), []byte(fmt.Sprintf("w-%07d", i))); rr.Class != "hit" {
						lost++
					}
				}

				lenAfter = be.Len() - written + lost

				_, _ = be.Walk(func(e Ent) error {
					if cls := string(e.K[:strings.IndexByte(string(e.K), '-')]); cls != "w" {
						left[cls]++
					}

					return nil
				})
			})

			_ = enc.Encode(map[string]interface{}{"kind": kind, "unlimited": unlimited, "before": before, "len_after": lenAfter,
				"never": n["never"], "fresh": n["fresh"], "recent": n["recent"], "old": n["old"],
				"left_never": left["never"], "left_fresh": left["fresh"], "left_recent": left["recent"], "left_old": left["old"],
				"written_during": written, "lost_writes": lost})
			res.Evaluations++
			res.Steps += total
		}
	}
}
