package harness

import (
	"bytes"
	"context"
	"encoding/json"
	"errors"
	"fmt"
	"os"
	"os/exec"
	"regexp"
	"runtime"
	"sort"
	"strings"
	"sync"
	"sync/atomic"
	"testing"
	"time"

	"github.com/bool64/cache"
)

// raceOps are the client operations of spec/Access.tla on a shared backend.
func raceBackendOps(be Backend, km *KeyMap, g int, ttlWrites bool) map[string]func(i int) {
	ctx := context.Background()
	if ttlWrites {
		ctx = cache.WithTTL(ctx, time.Minute, false)
	}

	key := func(i int) []byte { return km.ByModel[fmt.Sprintf("k%d", 1+i%4)] }

	return map[string]func(i int){
		"Read":   func(i int) { _ = be.Read(ctx, key(i)) },
		"Write":  func(i int) { _ = be.Write(ctx, key(i), fmt.Sprintf("g%d.%d", g, i)) },
		"Delete": func(i int) { _ = be.Delete(ctx, key(i)) },
		"Len":    func(i int) { _ = be.Len() },
		"ExpireAll": func(i int) {
			be.ExpireAll(ctx)
		},
		"DeleteAll": func(i int) {
			if i%8 == 0 {
				be.DeleteAll(ctx)
			} else {
				_ = be.Write(ctx, key(i), "x")
			}
		},
		"Walk": func(i int) {
			_, _ = be.Walk(func(e Ent) error { return nil }) // the adapter calls Key(), Value(), ExpireAt()
		},
		"Dump": func(i int) {
			var buf bytes.Buffer
			_, _ = be.Dump(&buf)
		},
		"Restore": func(i int) {
			var buf bytes.Buffer

			src := NewBackend(be.Kind(), cache.Config{Name: "src"})
			_ = src.Write(cache.WithTTL(ctx, time.Hour, false), key(i), "r")
			_, _ = src.Dump(&buf)
			_, _ = be.Restore(&buf)
		},
		"Janitor": func(i int) {
			// something for the cycle to delete: an entry expired for longer than DeleteExpiredAfter
			_ = be.Write(cache.WithTTL(context.Background(), -time.Hour, false), key(i+g), "long-expired")
			be.Cleanup()
		},
	}
}

var raceBackendNames = []string{"Read", "Write", "Delete", "Len", "ExpireAll", "DeleteAll", "Walk", "Dump", "Restore", "Janitor"}

// flakyDeleter fails every other Delete with an error that is not ErrNotFound (only used by one goroutine).
type flakyDeleter struct {
	inner cache.Deleter
	n     int64
}

func (f *flakyDeleter) Delete(ctx context.Context, key []byte) error {
	if atomic.AddInt64(&f.n, 1)%2 == 0 {
		return errors.New("deleter unavailable")
	}

	return f.inner.Delete(ctx, key)
}

type yieldDeleter struct{ inner cache.Deleter }

func (y yieldDeleter) Delete(ctx context.Context, key []byte) error {
	runtime.Gosched()
	time.Sleep(20 * time.Microsecond)

	return y.inner.Delete(ctx, key)
}

func runPair(a, b func(i int), iters int) {
	var wg sync.WaitGroup

	start := make(chan struct{})

	for _, f := range []func(i int){a, b} {
		wg.Add(1)

		go func(f func(i int)) {
			defer wg.Done()

			<-start

			for i := 0; i < iters; i++ {
				f(i)
			}
		}(f)
	}

	close(start)
	wg.Wait()
}

// TestRaceChild runs one group of client programs in this (race-enabled) process and prints PROGRAM markers, so that the
// parent can attribute the race detector's reports (written to GORACE log_path) and runtime faults to programs.
func TestRaceChild(t *testing.T) {
	group := os.Getenv("VERIF_RACE_GROUP")
	if group == "" {
		t.Skip("not a race child")
	}

	iters := int(envInt("VERIF_N", 150))
	km, err := NewKeyMap(envInt("VERIF_SEED", 1), false, []string{"k1", "k2", "k3", "k4"})
	mustNoErr(err, "keymap")

	mark := func(name string) { fmt.Printf("PROGRAM %s\n", name) }

	switch {
	case strings.HasPrefix(group, "backend:"):
		parts := strings.Split(group, ":") // backend:<kind>:<lru|plain|unl>
		kind, lru, unl := parts[1], parts[2] == "lru", parts[2] == "unl"

		for i, an := range raceBackendNames {
			for _, bn := range raceBackendNames[i:] {
				cc := cache.Config{Name: "race", TimeToLive: time.Hour, DeleteExpiredAfter: time.Minute,
					DeleteExpiredJobInterval: 100000 * time.Hour, CountSoftLimit: 2, EvictFraction: 0.5}
				if lru {
					cc.EvictionStrategy = cache.EvictLeastRecentlyUsed
				}

				if unl {
					cc.TimeToLive = cache.UnlimitedTTL // entries get their TTL per call
				}

				be := NewBackend(kind, cc)
				for j := 0; j < 4; j++ {
					_ = be.Write(context.Background(), km.ByModel[fmt.Sprintf("k%d", j+1)], "init")
				}

				mark(an + "|" + bn)
				runPair(raceBackendOps(be, km, 1, unl)[an], raceBackendOps(be, km, 2, unl)[bn], iters)
			}
		}
	case group == "failover":
		for _, gen := range []bool{false, true} {
			for _, su := range []bool{false, true} {
				cfg := FoCfg{Keys: []string{"k1", "k2"}, SyncUpdate: su, SyncRead: !su, FailTTL: 1, UpdTTL: 1, BeTTL: 1,
					Generic: gen, StatOn: true, LogOn: true, UnitSec: 1}
				s := newSched(km, time.Second, cfg.Keys)
				stat := NewStatRec()
				fo := newFo(cfg, s, stat, time.Now)

				mark(fmt.Sprintf("Get|Get generic=%v sync=%v", gen, su))

				var wg sync.WaitGroup

				// half of the goroutines derive their contexts from ONE request context that carries a TTL (a handler that
				// fans out): the library reads that TTL, it must never write into it
				shared := cache.WithTTL(context.Background(), time.Hour, false)

				for g := 0; g < 6; g++ {
					wg.Add(1)

					go func(g int) {
						defer wg.Done()

						for i := 0; i < iters; i++ {
							mk := cfg.Keys[(g+i)%2]
							p := fmt.Sprintf("g%d", g)

							base := context.Background()
							if g%2 == 0 {
								base = shared
							}

							ctx := context.WithValue(context.WithValue(base, procKey{}, p), ctxProbe{}, p)

							if i%7 == 0 && g%2 == 1 {
								ctx = cache.WithTTL(ctx, -time.Second, false) // stored expired: stale paths, background updates
							}

							// the caller owns the key buffer again as soon as Get has returned - also while a background update
							// of that key is still running - and rewrites it at once
							buf := append([]byte(nil), km.ByModel[mk]...)

							_, _ = fo.Get(ctx, buf, func(bctx context.Context) (string, error) {
								return s.build(bctx, p, mk, func() bool { return false })
							})

							for j := range buf {
								buf[j] = 'x'
							}

							if i%11 == 0 {
								fo.Backend().ExpireAll(context.Background())
							}
						}
					}(g)
				}

				wg.Wait()
				time.Sleep(20 * time.Millisecond) // background builds
			}
		}
	case group == "index":
		names := []string{"AddLabels", "AddCache", "Invalidate"}

		for i, an := range names {
			for _, bn := range names[i:] {
				idx := cache.NewInvalidationIndex()
				bes := []Backend{NewBackend("ShardedMap", cache.Config{}), NewBackend("SyncMap", cache.Config{})}
				idx.AddCache("n0", bes[0].Raw().(cache.Deleter))

				ops := func(g int) map[string]func(i int) {
					return map[string]func(i int){
						"AddLabels": func(i int) {
							// a new cache name every few calls: the per-name map of the index keeps growing while
							// invalidations iterate over it
							idx.AddLabels(fmt.Sprintf("n%d-%d", g, i/3), km.ByModel[fmt.Sprintf("k%d", 1+i%4)], "a", fmt.Sprintf("l%d", i%3))
						},
						"AddCache":   func(i int) { idx.AddCache(fmt.Sprintf("n%d", i%5), bes[i%2].Raw().(cache.Deleter)) },
						"Invalidate": func(i int) { _, _ = idx.InvalidateByLabels(context.Background(), "a", fmt.Sprintf("l%d", i%3)) },
					}
				}

				mark(an + "|" + bn)
				runPair(ops(1)[an], ops(2)[bn], iters)
			}
		}

		// one cache name, one label, several keys per list, deleters that yield: an invalidation is still walking the
		// keys it has cut out while the same label is being added again
		{
			idx := cache.NewInvalidationIndex()
			be := NewBackend("ShardedMap", cache.Config{})
			idx.AddCache("n0", yieldDeleter{be.Raw().(cache.Deleter)})

			mark("AddLabelsSameLabel|InvalidateWalking")
			runPair(func(i int) { idx.AddLabels("n0", km.ByModel[fmt.Sprintf("k%d", 1+i%4)], "a") },
				func(i int) {
					for j := 1; j <= 4; j++ {
						idx.AddLabels("n0", km.ByModel[fmt.Sprintf("k%d", j)], "a")
					}

					_, _ = idx.InvalidateByLabels(context.Background(), "a")
				}, iters*4)
		}

		// deleters that fail every other time: the put-back of unprocessed keys runs next to AddLabels
		{
			idx := cache.NewInvalidationIndex()
			be := NewBackend("ShardedMap", cache.Config{})
			fd := &flakyDeleter{inner: be.Raw().(cache.Deleter)}
			idx.AddCache("n0", fd)

			mark("AddLabelsSameLabel|InvalidateFailing")
			runPair(func(i int) { idx.AddLabels("n0", km.ByModel[fmt.Sprintf("k%d", 1+i%4)], "a", "b") },
				func(i int) {
					for j := 1; j <= 4; j++ {
						idx.AddLabels("n0", km.ByModel[fmt.Sprintf("k%d", j)], "a", "b")
					}

					_, _ = idx.InvalidateByLabels(context.Background(), "a", "b")
				}, iters*4)
		}

		// embedded index of a backend next to regular traffic
		be := NewBackend("ShardedMap", cache.Config{})
		sm := be.Raw().(*cache.ShardedMap)

		mark("AddInvalidationLabels|InvalidateByLabels+Write")
		runPair(func(i int) { sm.AddInvalidationLabels(km.ByModel["k1"], "a") },
			func(i int) {
				_ = be.Write(context.Background(), km.ByModel["k1"], "v")
				_, _ = sm.InvalidateByLabels(context.Background(), "a")
			}, iters)
	case group == "invalidator":
		inv := &cache.Invalidator{SkipInterval: time.Microsecond}
		be := NewBackend("ShardedMap", cache.Config{})
		inv.Callbacks = append(inv.Callbacks, be.ExpireAll, func(ctx context.Context) {})

		mark("InvalidatorCall|InvalidatorCall")
		runPair(func(i int) { _ = inv.Invalidate(context.Background()) }, func(i int) { _ = inv.Invalidate(context.Background()) }, iters)

		// accepted and rejected calls interleaved (the interval elapses several times during the run)
		inv2 := &cache.Invalidator{SkipInterval: 150 * time.Microsecond, Callbacks: []func(ctx context.Context){func(ctx context.Context) {}}}

		mark("InvalidatorAccepted|InvalidatorRejected")
		runPair(func(i int) { _ = inv2.Invalidate(context.Background()) },
			func(i int) {
				if err := inv2.Invalidate(context.Background()); err != nil {
					_ = err.Error()
				}

				if i%10 == 0 {
					time.Sleep(100 * time.Microsecond)
				}
			}, iters*4)

		// fresh instances with SkipInterval left at zero: the first calls install the default
		mark("InvalidatorFirstCall|InvalidatorFirstCall")

		for j := 0; j < 40; j++ {
			fresh := &cache.Invalidator{Callbacks: []func(ctx context.Context){func(ctx context.Context) {}}}
			runPair(func(i int) { _ = fresh.Invalidate(context.Background()) }, func(i int) { _ = fresh.Invalidate(context.Background()) }, 3)
		}
	}

	mark("END")
}

var (
	raceFrameRe = regexp.MustCompile(`^\s+(github\.com/bool64/cache\.[^\s(]+(?:\([^)]*\))?[^\s(]*)\(`)
	raceFuncRe  = regexp.MustCompile(`github\.com/bool64/cache\.(\(?\*?[A-Za-z0-9_\[\].]+\)?(?:\.[A-Za-z0-9_]+)*)`)
)

// libFrames extracts, for each access block of one race report, the innermost library frame.
func raceSignature(report string) (string, bool) {
	var sigs []string

	accRe := regexp.MustCompile(`(?m)^(Write|Read|Previous write|Previous read|Atomic [a-z]+|Previous atomic [a-z]+) at `)
	heads := accRe.FindAllStringSubmatch(report, -1)
	blocks := accRe.Split(report, -1)

	for bi, b := range blocks[1:] {
		// an access block ends at the first empty line
		if i := strings.Index(b, "\n\n"); i >= 0 {
			b = b[:i]
		}

		fn := ""

		for _, line := range strings.Split(b, "\n") {
			if m := raceFuncRe.FindStringSubmatch(line); m != nil && strings.HasPrefix(strings.TrimSpace(line), "github.com/bool64/cache.") {
				fn = m[1]
				// generic instantiations print as name[...]: normalise
				fn = regexp.MustCompile(`\[[^\]]*\]`).ReplaceAllString(fn, "")

				break
			}
		}

		if fn != "" {
			kind := strings.ToLower(strings.TrimPrefix(heads[bi][1], "Previous "))
			sigs = append(sigs, kind+"@"+fn)
		}
	}

	if len(sigs) == 0 {
		return "", false
	}

	sort.Strings(sigs)

	return strings.Join(sigs, " ~ "), true
}

// TestRacePrograms spawns the race children (one per group), collects detector reports and runtime faults.
func TestRacePrograms(t *testing.T) {
	outp := os.Getenv("VERIF_TRACE_OUT")
	if outp == "" || os.Getenv("VERIF_RACE") == "" {
		t.Skip("VERIF_RACE not set")
	}

	res := Result{Extra: map[string]interface{}{}}

	defer func() { mustNoErr(writeJSON(os.Getenv("VERIF_OUT"), res), "write result") }()

	f, err := os.Create(outp)
	mustNoErr(err, "trace out")

	defer f.Close()

	enc := json.NewEncoder(f)

	var groups []string

	for _, k := range Kinds {
		groups = append(groups, "backend:"+k+":plain", "backend:"+k+":lru", "backend:"+k+":unl")
	}

	groups = append(groups, "failover", "index", "invalidator")

	type out struct {
		group, stdout, races string
		err                  error
	}

	outs := make([]out, len(groups))

	var wg sync.WaitGroup

	for gi, g := range groups {
		wg.Add(1)

		go func(gi int, g string) {
			defer wg.Done()

			logp := fmt.Sprintf("%s.race.%d", outp, gi)
			cmd := exec.Command(os.Args[0], "-test.run", "^TestRaceChild$", "-test.count=1", "-test.timeout=600s") //nolint:gosec
			cmd.Env = append(os.Environ(), "VERIF_RACE_GROUP="+g, "GORACE=halt_on_error=0 log_path="+logp)

			b, err := cmd.CombinedOutput()
			o := out{group: g, stdout: string(b), err: err}

			if files, _ := os.ReadDir(strings.TrimSuffix(logp, "/"+logp[strings.LastIndex(logp, "/")+1:])); files != nil {
				for _, fi := range files {
					if strings.HasPrefix(fi.Name(), logp[strings.LastIndex(logp, "/")+1:]) {
						rb, _ := os.ReadFile(logp[:strings.LastIndex(logp, "/")+1] + fi.Name())
						o.races += string(rb)
					}
				}
			}

			outs[gi] = o
		}(gi, g)
	}

	wg.Wait()

	for _, o := range outs {
		programs := strings.Count(o.stdout, "PROGRAM ") - 1
		res.Evaluations += programs

		for _, rep := range strings.Split(o.races, "==================") {
			if !strings.Contains(rep, "DATA RACE") {
				continue
			}

			sig, lib := raceSignature(rep)
			_ = enc.Encode(map[string]interface{}{"group": o.group, "kind": "race", "sig": sig, "library": lib, "report": rep})
		}

		if strings.Contains(o.stdout, "fatal error: concurrent map") || !strings.Contains(o.stdout, "PROGRAM END") {
			last := ""
			for _, l := range strings.Split(o.stdout, "\n") {
				if strings.HasPrefix(l, "PROGRAM ") {
					last = strings.TrimPrefix(l, "PROGRAM ")
				}
			}

			tail := o.stdout
			if len(tail) > 6000 {
				tail = tail[:6000]
			}

			_ = enc.Encode(map[string]interface{}{"group": o.group, "kind": "crash", "sig": "crash in program " + last,
				"library": strings.Contains(o.stdout, "github.com/bool64/cache."), "report": tail})
		}
	}
}
