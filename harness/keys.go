package harness

import (
	"encoding/binary"
	"fmt"
	"math/bits"
	"math/rand"

	"github.com/cespare/xxhash/v2"
)

// xxhash64 constants (public algorithm, https://github.com/Cyan4973/xxHash).
const (
	xxPrime1 uint64 = 11400714785074694791
	xxPrime2 uint64 = 14029467366897019727
)

func xxRound(acc, input uint64) uint64 {
	acc += input * xxPrime2
	acc = bits.RotateLeft64(acc, 31)
	acc *= xxPrime1

	return acc
}

// modInverse64 returns the inverse of an odd a modulo 2^64 (Newton iteration).
func modInverse64(a uint64) uint64 {
	x := a
	for i := 0; i < 6; i++ {
		x *= 2 - a*x
	}

	return x
}

// CollidingPair builds two distinct 64-byte keys with the same xxhash64 sum.
//
// Lane i of the hash state after the first 32-byte stripe is a1 = round(v_i, w1);
// after the second stripe it is round(a1, w2) = rotl(a1 + w2*prime2, 31)*prime1.
// Changing w1 to w1' (state a1') and choosing w2' = w2 + (a1-a1')*prime2^-1
// leaves the lane state, hence the sum, unchanged.  The result is verified
// with the library's own xxhash.Sum64; ok=false if it does not collide.
func CollidingPair(rng *rand.Rand) (a, b []byte, ok bool) {
	a = make([]byte, 64)
	for i := range a {
		a[i] = byte(rng.Intn(256))
	}

	b = append([]byte(nil), a...)

	lane := rng.Intn(4)
	p1, p2 := xxPrime1, xxPrime2
	inits := [4]uint64{p1 + p2, p2, 0, -p1}
	w1 := binary.LittleEndian.Uint64(a[lane*8:])
	w2 := binary.LittleEndian.Uint64(a[32+lane*8:])
	w1p := w1 ^ (1 + uint64(rng.Int63()))
	a1 := xxRound(inits[lane], w1)
	a1p := xxRound(inits[lane], w1p)
	w2p := w2 + (a1-a1p)*modInverse64(xxPrime2)

	binary.LittleEndian.PutUint64(b[lane*8:], w1p)
	binary.LittleEndian.PutUint64(b[32+lane*8:], w2p)

	if string(a) == string(b) || xxhash.Sum64(a) != xxhash.Sum64(b) {
		return nil, nil, false
	}

	return a, b, true
}

// KeyMap maps model keys ("k1", "k2", ...) to concrete byte keys.
type KeyMap struct {
	ByModel map[string][]byte
	ByReal  map[string]string
	Collide bool // k1 and k2 have equal xxhash64
}

// NewKeyMap builds a seed-dependent table.  With collide, k1/k2 are a constructed
// xxhash64 collision; the other keys are drawn from a pool containing the empty key,
// a 1 KiB key, binary keys with 0x00/0xFF, prefix-related keys and plain ones.
func NewKeyMap(seed int64, collide bool, models []string) (*KeyMap, error) {
	rng := rand.New(rand.NewSource(seed)) //nolint:gosec
	km := &KeyMap{ByModel: map[string][]byte{}, ByReal: map[string]string{}, Collide: collide}

	long := make([]byte, 1024)
	for i := range long {
		long[i] = byte('a' + i%26)
	}

	// long keys that differ only in their tail (after 1000 common bytes) and only in one byte in the middle
	long2 := append(append([]byte(nil), long[:1000]...), []byte("-tail-two-0123456789abcdef")...)
	long3 := append([]byte(nil), long...)
	long3[700] ^= 0x20

	pool := [][]byte{
		{}, long, long2, long3, {0x00}, {0x00, 0x00}, {0xFF, 0x00, 0xFF}, []byte("k"), []byte("key"), []byte("key1"),
		[]byte("key\x00"), []byte("longer-key"), []byte("k2"), []byte("\xff\xfe"), []byte("some/other:key"),
		[]byte("кириллица"), []byte("key-with-a-much-longer-name-0123456789"),
	}
	rng.Shuffle(len(pool), func(i, j int) { pool[i], pool[j] = pool[j], pool[i] })

	next := 0

	for _, m := range models {
		if collide && (m == "k1" || m == "k2") {
			continue
		}

		for {
			if next >= len(pool) {
				return nil, fmt.Errorf("key pool exhausted")
			}

			k := pool[next]
			next++

			if _, dup := km.ByReal[string(k)]; !dup {
				km.ByModel[m] = k
				km.ByReal[string(k)] = m

				break
			}
		}
	}

	if collide {
		a, b, ok := CollidingPair(rng)
		if !ok {
			return nil, fmt.Errorf("no xxhash64 collision available")
		}

		km.ByModel["k1"], km.ByModel["k2"] = a, b
		km.ByReal[string(a)], km.ByReal[string(b)] = "k1", "k2"
	}

	// Without a requested collision all keys must hash differently.
	seen := map[uint64]string{}
	for m, k := range km.ByModel {
		h := xxhash.Sum64(k)
		if o, dup := seen[h]; dup && !(collide && ((m == "k1" && o == "k2") || (m == "k2" && o == "k1"))) {
			return nil, fmt.Errorf("unexpected hash collision %s/%s", m, o)
		}

		seen[h] = m
	}

	return km, nil
}

// KeyBuf hands out keys through one reusable buffer and scrambles it after every call
// (C09: no component may keep a reference to the caller's key slice).
type KeyBuf struct {
	buf []byte
}

// Get copies k into the shared buffer and returns the slice of it.
func (kb *KeyBuf) Get(k []byte) []byte {
	if cap(kb.buf) < len(k)+8 {
		kb.buf = make([]byte, 0, 2*len(k)+64)
	}

	kb.buf = kb.buf[:len(k)]
	copy(kb.buf, k)

	return kb.buf
}

// Scramble overwrites the buffer contents (called after an operation returned).
func (kb *KeyBuf) Scramble() {
	b := kb.buf[:cap(kb.buf)]
	for i := range b {
		b[i] ^= 0xA5
		b[i] += byte(i)
	}
}
