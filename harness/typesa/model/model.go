// Package model (first of two packages of that name): reflect prints its User as "model.User", like the other one's.
package model

// User is a value type registered for gob transfer.
type User struct {
	ID   int
	Name string
}
