"""Shared machinery of /verif/bin/check: TLC driver, harness driver, evidence, known findings."""
import hashlib
import json
import os
import re
import shutil
import subprocess
import sys
import time

VERIF = os.path.dirname(os.path.dirname(os.path.abspath(__file__)))
SPEC = os.path.join(VERIF, "spec")
HARNESS = os.path.join(VERIF, "harness")
WORK = os.path.join(VERIF, ".work")
REPLAYS = os.path.join(VERIF, "replays")
EVIDENCE = os.path.join(VERIF, "evidence")
REPO = os.environ.get("VERIF_REPO", "/repo")
GO = "go1.26.8"
NCPU = int(os.environ.get("VERIF_CPUS") or os.cpu_count() or 4)

GOENV = dict(os.environ, GOFLAGS="-mod=mod", GOPROXY="off", GOSUMDB="off", GOTOOLCHAIN="local",
             CGO_ENABLED=os.environ.get("CGO_ENABLED", "0"))


class Inconclusive(Exception):
    """Infrastructure problem: exit 2, never a violation."""


class LibraryCrash(Exception):
    """The harness process died with a panic / fatal error whose stack is in library code (DESIGN.md section 5)."""

    def __init__(self, test, text):
        Exception.__init__(self, "library code crashed during %s" % test)
        self.test, self.text = test, text
        m = re.search(r"^github\.com/bool64/cache\.(.+)\(.*\)$", text, re.M)
        self.where = m.group(1) if m else "?"


def log(*a):
    print(*a, flush=True)


# --------------------------------------------------------------------------- work dirs

def workdir(name):
    # scratch dirs of runs that were killed or ended in a violation are kept for inspection, but not for ever
    try:
        for e in os.listdir(WORK):
            q = os.path.join(WORK, e)
            if re.match(r"^(C\d\d|BIND)-(quick|thorough)-\d+$", e) and os.path.isdir(q) and time.time() - os.path.getmtime(q) > 6 * 3600:
                shutil.rmtree(q, ignore_errors=True)
    except OSError:
        pass
    d = os.path.join(WORK, name)
    shutil.rmtree(d, ignore_errors=True)
    os.makedirs(d, exist_ok=True)
    return d


# --------------------------------------------------------------------------- TLC

def tla_value(v):
    if isinstance(v, bool):
        return "TRUE" if v else "FALSE"
    if isinstance(v, int):
        return str(v)
    if isinstance(v, str):
        return '"%s"' % v
    if isinstance(v, (set, frozenset, list, tuple)):
        items = sorted(v, key=lambda x: (str(type(x)), x)) if isinstance(v, (set, frozenset)) else list(v)
        return "{" + ", ".join(tla_value(x) for x in items) + "}"
    raise ValueError("cannot render %r" % (v,))


class Sub(str):
    """A constant given by substitution:  Name <- Operator."""


def mkcfg(spec="Spec", init=None, next_=None, consts=None, invariants=(), properties=(), view=None,
          constraints=(), action_constraints=(), postcondition=None, deadlock=False, symmetry=None):
    lines = []
    if init:
        lines += ["INIT %s" % init, "NEXT %s" % next_]
    else:
        lines.append("SPECIFICATION %s" % spec)
    if consts:
        lines.append("CONSTANTS")
        for k, v in consts.items():
            if isinstance(v, Sub):
                lines.append("  %s <- %s" % (k, v))
            elif isinstance(v, (set, frozenset, list, tuple)) and any(isinstance(x, int) and x < 0 for x in v):
                raise ValueError("negative numbers cannot appear in a cfg set literal; use Sub for %s" % k)
            else:
                lines.append("  %s = %s" % (k, tla_value(v)))
    if view:
        lines.append("VIEW %s" % view)
    if symmetry:
        lines.append("SYMMETRY %s" % symmetry)
    for c in constraints:
        lines.append("CONSTRAINT %s" % c)
    for c in action_constraints:
        lines.append("ACTION_CONSTRAINT %s" % c)
    if invariants:
        lines.append("INVARIANTS " + " ".join(invariants))
    if properties:
        lines.append("PROPERTIES " + " ".join(properties))
    if postcondition:
        lines.append("POSTCONDITION %s" % postcondition)
    lines.append("CHECK_DEADLOCK %s" % ("TRUE" if deadlock else "FALSE"))
    return "\n".join(lines) + "\n"


class TlcResult:
    def __init__(self):
        self.ok = False
        self.violated = None      # name of a violated invariant / property
        self.generated = 0
        self.distinct = 0
        self.depth = 0
        self.wall = 0.0
        self.out = ""
        self.error = None
        self.coverage_zero = []

    def as_dict(self):
        return {"ok": self.ok, "violated": self.violated, "generated": self.generated, "distinct": self.distinct,
                "depth": self.depth, "wall_s": round(self.wall, 2)}


def _stage(wd, extra_files=()):
    for f in os.listdir(SPEC):
        if f.endswith(".tla"):
            shutil.copy(os.path.join(SPEC, f), wd)
    for f in extra_files:
        shutil.copy(f, wd)


def run_tlc(wd, module, cfg_text, workers=None, timeout=600, simulate=None, seed=None, depth=None, extra=(),
            dfs=False, coverage=False, heap=None):
    """Run TLC in wd (a scratch dir holding a copy of the spec). Returns TlcResult."""
    _stage(wd)
    cfgp = os.path.join(wd, module + "_run.cfg")
    with open(cfgp, "w") as f:
        f.write(cfg_text)
    meta = os.path.join(wd, "meta")
    shutil.rmtree(meta, ignore_errors=True)
    cmd = ["timeout", str(timeout), "tlc", "-metadir", meta, "-config", cfgp, "-nowarning"]
    cmd += ["-workers", str(workers or NCPU)]
    if simulate:
        cmd += ["-simulate", simulate]
    if depth:
        cmd += ["-depth", str(depth)]
    if seed is not None:
        cmd += ["-seed", str(seed)]
    if coverage:
        cmd += ["-coverage", "1"]
    cmd += list(extra)
    cmd.append(module + ".tla")
    env = dict(os.environ)
    jopts = []
    if dfs:
        jopts.append("-Dtlc2.tool.queue.IStateQueue=StateDeque")
    jopts.append("-Xss64m")
    jtmp = os.path.join(wd, "jtmp")     # TLC/SANY leave tlc-*/SANY* temp dirs behind: keep them in the scratch dir
    os.makedirs(jtmp, exist_ok=True)
    jopts.append("-Djava.io.tmpdir=%s" % jtmp)
    if heap:
        jopts.append("-Xmx%s" % heap)
    env["JAVA_TOOL_OPTIONS"] = " ".join(jopts)
    t0 = time.time()
    p = subprocess.run(cmd, cwd=wd, env=env, stdout=subprocess.PIPE, stderr=subprocess.STDOUT, text=True,
                       errors="replace")
    r = TlcResult()
    r.wall = time.time() - t0
    r.out = p.stdout
    m = re.search(r"(\d+) states generated, (\d+) distinct states found", p.stdout)
    if m:
        r.generated, r.distinct = int(m.group(1)), int(m.group(2))
    m = re.search(r"The number of states generated: (\d+)", p.stdout)
    if m and not r.generated:
        r.generated = int(m.group(1))
    m = re.search(r"depth of the complete state graph search is (\d+)", p.stdout)
    if m:
        r.depth = int(m.group(1))
    if p.returncode == 124:
        r.error = "timeout after %ss" % timeout
        return r
    m = re.search(r"Invariant (\S+) is violated", p.stdout) or re.search(r"Action property (\S+) is violated", p.stdout) \
        or re.search(r"Temporal properties were violated", p.stdout) or re.search(r"(Deadlock) reached", p.stdout) \
        or re.search(r"The postcondition (\S+)? ?(?:is|was) (?:violated|false)", p.stdout)
    if m:
        r.violated = (m.group(1) if m.groups() and m.group(1) else "temporal")
        return r
    if "Error:" in p.stdout or p.returncode not in (0,):
        # TLC uses exit code 0 for success; anything else without a recognised violation is an error
        em = re.search(r"Error: (.*)", p.stdout)
        r.error = (em.group(1) if em else "tlc exit %d" % p.returncode)
        return r
    r.ok = True
    if coverage:
        r.coverage_zero = re.findall(r"^<(\w+) line .*>: 0:0$", p.stdout, re.M)
    return r


def parse_traces(out):
    """Extract the JSON payloads of PrintT("TRACE " \\o ToJson(..)) lines."""
    res = []
    for line in out.splitlines():
        if line.startswith('"TRACE '):
            s = json.loads(line)          # TLA+ string literal escapes are JSON compatible
            res.append(json.loads(s[len("TRACE "):]))
    return res


def tlc_must_pass(r, what):
    if r.error:
        raise Inconclusive("TLC failed on %s: %s\n%s" % (what, r.error, r.out[-3000:]))
    if r.violated:
        raise Inconclusive("TLC reports %s violated on the MODEL (%s); a model counterexample alone is never a "
                           "violation verdict\n%s" % (r.violated, what, r.out[-6000:]))


# --------------------------------------------------------------------------- harness

_built = {}


def build_harness(race=False):
    """Compile the Go test binary of /verif/harness against REPO's working tree with the verif tag."""
    key = "race" if race else "plain"
    if key in _built:
        return _built[key]
    os.makedirs(WORK, exist_ok=True)
    out = os.path.join(WORK, "harness-%s-%d.test" % (key, os.getpid()))
    modfile = os.path.join(WORK, "go-%d.mod" % os.getpid())
    with open(os.path.join(HARNESS, "go.mod")) as f:
        mod = f.read()
    mod = mod.replace("=> /repo", "=> " + REPO)
    with open(modfile, "w") as f:
        f.write(mod)
    shutil.copy(os.path.join(HARNESS, "go.sum"), modfile[:-4] + ".sum")
    env = dict(GOENV)
    cmd = [GO, "test", "-c", "-tags", "verif", "-modfile", modfile, "-o", out]
    if os.environ.get("VERIF_COVER"):
        cmd += ["-cover", "-coverpkg=github.com/bool64/cache"]
    if race:
        cmd.append("-race")
        env["CGO_ENABLED"] = "1"
    cmd.append(".")
    p = subprocess.run(cmd, cwd=HARNESS, env=env, stdout=subprocess.PIPE, stderr=subprocess.STDOUT, text=True)
    for f in (modfile, modfile[:-4] + ".sum"):
        try:
            os.remove(f)
        except OSError:
            pass
    if p.returncode != 0:
        raise Inconclusive("harness build failed (is %s buildable with -tags verif?):\n%s" % (REPO, p.stdout[-4000:]))
    _built[key] = out
    return out


def cleanup_built():
    for p in _built.values():
        try:
            os.remove(p)
        except OSError:
            pass


def run_harness(test, env, timeout=900, race=False, wd=None):
    """Run one entry point of the harness binary; returns the parsed Result json (dict)."""
    binp = build_harness(race)
    outp = env.get("VERIF_OUT")
    if outp and os.path.exists(outp):
        os.remove(outp)
    e = dict(GOENV)
    e.update({k: str(v) for k, v in env.items()})
    cmd = ["timeout", str(timeout), binp, "-test.run", "^%s$" % test, "-test.count=1", "-test.timeout", "%ds" % (timeout + 30)]
    if os.environ.get("VERIF_COVER"):
        os.makedirs(os.environ["VERIF_COVER"], exist_ok=True)
        cmd.append("-test.coverprofile=%s/%s-%d-%d.out" % (os.environ["VERIF_COVER"], test, os.getpid(), int(time.time() * 1000) % 100000000))
    p = subprocess.run(cmd, cwd=wd or WORK, env=e, stdout=subprocess.PIPE, stderr=subprocess.STDOUT, text=True,
                       errors="replace")
    res = None
    if outp and os.path.exists(outp):
        try:
            with open(outp) as f:
                res = json.load(f)
        except ValueError:
            res = None
    if res is None:
        out = p.stdout
        crash = re.search(r"^(panic: |fatal error: )", out, re.M)
        if crash:
            tail = out[crash.start():]
            first = re.search(r"^goroutine \d+ .*?:\n((?:.+\n)+?)\n", tail, re.M)
            stack = first.group(1) if first else tail[:3000]
            # the panic counts against the library only if a library frame is above the first harness frame
            lines = [l for l in stack.splitlines() if not l.startswith("\t")]
            lib = next((i for i, l in enumerate(lines) if l.startswith("github.com/bool64/cache.")), None)
            har = next((i for i, l in enumerate(lines) if l.startswith("verif/harness")), None)
            if lib is not None and (har is None or lib < har):
                raise LibraryCrash(test, tail[:6000])
        raise Inconclusive("harness %s produced no result (exit %d):\n%s" % (test, p.returncode, p.stdout[-4000:]))
    res["_stdout"] = p.stdout[-20000:]
    res["_exit"] = p.returncode
    if res.get("fatal"):
        raise Inconclusive("harness %s: %s" % (test, res["fatal"]))
    return res


# --------------------------------------------------------------------------- known findings

def load_known():
    p = os.path.join(VERIF, "known_findings.json")
    if not os.path.exists(p):
        return []
    with open(p) as f:
        return json.load(f)


def split_known(prop, violations):
    """Partition violations into (unknown, known) by signature match against status=known entries."""
    known = [k for k in load_known() if k.get("status") == "known" and k.get("property") == prop]
    unk, kn = [], []
    for v in violations:
        hit = None
        for k in known:
            if k.get("signature") and k["signature"] == v.get("sig"):
                hit = k
                break
            if k.get("signature_regex") and re.search(k["signature_regex"], v.get("sig") or ""):
                hit = k
                break
        if hit:
            kn.append((v, hit))
        else:
            unk.append(v)
    return unk, kn


# --------------------------------------------------------------------------- evidence / verdict

def save_replay(prop, payload):
    os.makedirs(REPLAYS, exist_ok=True)
    h = hashlib.sha1(json.dumps(payload, sort_keys=True, default=str).encode()).hexdigest()[:12]
    p = os.path.join(REPLAYS, "%s-%s.json" % (prop, h))
    with open(p, "w") as f:
        json.dump(payload, f, indent=1, default=str)
    return p


def write_evidence(prop, tier, seed, level, coverage, assumptions, wall, violations):
    os.makedirs(EVIDENCE, exist_ok=True)
    ev = {"property_id": prop, "tier": tier, "seed": seed, "level": level, "coverage": coverage,
          "assumptions": assumptions, "wall_s": round(wall, 2), "violations": violations}
    with open(os.path.join(EVIDENCE, "%s.json" % prop), "w") as f:
        json.dump(ev, f, indent=1, default=str)
    return ev


def trim(x, n=4000):
    s = json.dumps(x, default=str)
    if len(s) <= n:
        return x
    return s[:n] + "...(truncated)"


# --------------------------------------------------------------------------- trace validation (code -> model)

def validate_traces(wd, module, consts, traces, invariants=(), timeout=600, max_rounds=4, extra_cfg=None, dfs=False,
                    headers=None, highwater=False):
    """traces: list of lists of event dicts (without the reset markers).
    Returns (accepted, rejections, tlc_stats) where rejections = [(trace_index, event_index_in_trace)]."""
    alive = list(range(len(traces)))
    rejections = []
    stats = {"generated": 0, "distinct": 0, "wall_s": 0.0, "runs": 0}
    for _ in range(max_rounds + 1):
        if not alive:
            break
        os.makedirs(wd, exist_ok=True)
        path = os.path.join(wd, "trace.ndjson")
        index = []  # line number (1-based) -> (trace idx, event idx)
        with open(path, "w") as f:
            for ti in alive:
                f.write(json.dumps(headers[ti] if headers else {"ev": "reset"}) + "\n")
                index.append((ti, -1))
                for ei, ev in enumerate(traces[ti]):
                    f.write(json.dumps(ev) + "\n")
                    index.append((ti, ei))
        c = dict(consts)
        c["TraceFile"] = "trace.ndjson"
        cfg = mkcfg(spec="TraceSpec", consts=c, invariants=invariants, postcondition="TraceAccepted",
                    constraints=["HighWater"] if highwater else ())
        if extra_cfg:
            cfg += extra_cfg
        r = run_tlc(wd, module, cfg, workers=1, timeout=timeout, dfs=dfs)
        stats["generated"] += r.generated
        stats["distinct"] += r.distinct
        stats["wall_s"] += r.wall
        stats["runs"] += 1
        m = re.search(r"TRACE_REJECTED_AT_LINE[\"\s,]*(\d+)", r.out)
        if m:
            line = int(m.group(1))            # number of the first line that could not be consumed
            ti, ei = index[min(line, len(index)) - 1]
            rejections.append((ti, ei))
            alive.remove(ti)
            continue
        if r.violated and r.violated != "TraceAccepted":
            # an invariant failed while following the trace: attribute to the trace that contains the last state
            m2 = re.findall(r"/\\ l = (\d+)", r.out)
            line = int(m2[-1]) - 1 if m2 else 1
            ti, ei = index[max(0, min(line, len(index)) - 1)]
            rejections.append((ti, ei, r.violated))
            alive.remove(ti)
            continue
        if r.error or not r.ok:
            raise Inconclusive("trace validation with %s failed: %s\n%s" % (module, r.error or r.violated, r.out[-3000:]))
        alive = []
        break
    # traces still in `alive` here were never run to the end (budget of re-runs used up): not counted as accepted
    stats["unvalidated"] = len(alive)
    accepted = len(traces) - len(rejections) - len(alive)
    return accepted, rejections, stats
